"""C27 - global projection operators (numerics/ad/grid_operators.py): MortarProjections method table and
cache slots, _construct_projection assembly, SubdomainProjections sibling agreement, offsets of
_cell_projections/_face_projections, BoundaryProjection.

Dataflow helpers are shared with (imported from) c26.
"""
from __future__ import annotations

import ast
import re
from typing import Optional

from ..core import cfg as cfgmod
from ..core.astutil import (u, walk_local, call_name, kwarg, names_in, stmts_local, assigned_targets, methods)
from ..core.loader import AnchorError, Undecided
from ..core.report import Ctx
from .c26 import Fn, call_args, guard_polarity

GO = "src/porepy/numerics/ad/grid_operators.py"
SLOT_RE = re.compile(r"^_(primary|secondary|mortar)_to_(primary|secondary|mortar)(_int|_avg)?$")
ORDER_BREAKERS = {"sorted", "set", "reversed", "frozenset"}

META = {
    "explanation": (
        "Sibling-agreement analysis of the AD projection wrappers. R1: each of the eight MortarProjections methods passes its "
        "own name as the MortarGrid projection to _construct_projection, with to_mortar/is_primary agreeing with the name. "
        "R2: partial evaluation of each method under _is_conforming_<side> = True/False: the only cache slot read, returned "
        "or written is _X_to_Y (shared, conforming) resp. _X_to_Y_k (own). R3: _construct_projection picks position 0/1 of "
        "the interface's subdomain pair by is_primary, composes P_intf(self.dim) @ proj[sd].T (to mortar) resp. "
        "proj[sd] @ P_intf(self.dim) (from mortar), emits exactly one block per listed interface in list order, stacks "
        "vertically resp. horizontally, builds proj from (self._subdomains, self.dim), and orients the empty blocks and their "
        "sizes (with the self.dim factor) the same way. R4: SubdomainProjections X_restriction / X_prolongation build lazily "
        "the same per-grid map _X_projections(self._all_subdomains, self.dim), iterate the *argument* list in order, and the "
        "restriction stacks the transposes vertically where the prolongation stacks the maps horizontally; the empty-list arms "
        "have the matching orientation and total size. R5: _cell_projections/_face_projections iterate the listed grids in "
        "list order, place block i at rows offset + expand(arange(n_i), dim), of width n_i*dim, in a matrix of height "
        "sum(n)*dim, and move the offset to one past the block just emitted (after using it), starting from 0. R6: "
        "BoundaryProjection stacks one block per listed subdomain in order, bg.projection(dim) * face_proj[sd].T, and its two "
        "properties are transposes of one matrix. R7: each _is_conforming_<side> flag is decided, for every listed interface and "
        "monotonically, from projections of its own side that include a complete int/avg pair of a direction whose cache slots "
        "the flag merges (the merged directions are read off R2's partial evaluation). Decides these structural clauses; that the assembled matrices are "
        "permutations / identities is their run-time consequence and is not decided numerically."),
    "rule_text": "one obligation per (method x argument clause | method x flag value | assembly clause | restriction/prolongation "
                 "clause | builder clause)",
    "trusted_base": ["python ast", "sa.core (loader, astutil, cfg)", "c26 helpers (Fn, call_args, guard_polarity)",
                     "expand_indices_nd(arange(n), dim) enumerates 0..n*dim-1 with the last entry n*dim-1"],
    "assumptions": ["getattr(intf, proj_func) resolves to the MortarGrid accessor of that name (C26-R1 ties accessor to field)",
                    "scipy.sparse.bmat([[a],[b]]) stacks vertically and bmat([[a, b]]) horizontally"],
    "technique": "sibling agreement over a method table + partial evaluation under a boolean flag + shape/dataflow rules on the CFG",
}
MIN_INSTANCES = {"R1": 16, "R2": 16, "R3": 14, "R4": 14, "R5": 14, "R6": 5, "R7": 6}


# ---------------------------------------------------------------------------------------
# R1 / R2 MortarProjections
# ---------------------------------------------------------------------------------------

def _method_names():
    for side in ("primary", "secondary"):
        for x, y in (("mortar", side), (side, "mortar")):
            for k in ("int", "avg"):
                yield f"{x}_to_{y}_{k}", side, x, y, k


class _PE:
    """Partial evaluation of a method body with one boolean self-attribute fixed."""

    def __init__(self, flag: str, val: bool):
        self.flag, self.val = flag, val
        self.reads: set[str] = set()
        self.writes: set[str] = set()
        self.other_flags: set[str] = set()
        self.env: dict[str, bool] = {}      # locals known to hold a boolean that follows from the fixed flag

    def ev(self, e: ast.AST) -> Optional[bool]:
        if isinstance(e, ast.Name) and isinstance(e.ctx, ast.Load) and e.id in self.env:
            return self.env[e.id]
        if isinstance(e, ast.Attribute) and u(e.value) == "self":
            if e.attr == self.flag:
                return self.val
            if SLOT_RE.match(e.attr):
                self.reads.add(e.attr)
            elif e.attr.startswith("_is_conforming"):
                self.other_flags.add(e.attr)
            return None
        if isinstance(e, ast.Constant):
            return e.value if isinstance(e.value, bool) else None
        if isinstance(e, ast.UnaryOp) and isinstance(e.op, ast.Not):
            v = self.ev(e.operand)
            return None if v is None else (not v)
        if isinstance(e, ast.BoolOp):
            is_and = isinstance(e.op, ast.And)
            res: Optional[bool] = is_and
            for v in e.values:
                r = self.ev(v)
                if r is (not is_and):
                    return not is_and      # short circuit: the remaining operands are not evaluated
                if r is None:
                    res = None
            return res
        for c in ast.iter_child_nodes(e):
            self.ev(c)
        return None

    def run(self, body: list[ast.stmt]) -> bool:
        for s in body:
            if isinstance(s, ast.If):
                v = self.ev(s.test)
                if v is True:
                    if self.run(s.body):
                        return True
                elif v is False:
                    if self.run(s.orelse):
                        return True
                else:
                    env0 = dict(self.env)
                    a = self.run(s.body)
                    env_a, self.env = self.env, dict(env0)
                    b = self.run(s.orelse)
                    self.env = {k_: v_ for k_, v_ in self.env.items() if env_a.get(k_) is v_} if not (a or b) else (
                        self.env if a else env_a)
                    if a and b:
                        return True
            elif isinstance(s, ast.Return):
                if s.value is not None:
                    self.ev(s.value)
                return True
            elif isinstance(s, ast.Raise):
                return True
            elif isinstance(s, (ast.Assign, ast.AnnAssign, ast.AugAssign)):
                known = None
                if getattr(s, "value", None) is not None:
                    known = self.ev(s.value)
                for t in assigned_targets(s):
                    if isinstance(t, ast.Name):
                        if known is not None and isinstance(s, (ast.Assign, ast.AnnAssign)) and len(assigned_targets(s)) == 1:
                            self.env[t.id] = known
                        else:
                            self.env.pop(t.id, None)
                for t in assigned_targets(s):
                    if isinstance(t, ast.Attribute) and u(t.value) == "self" and SLOT_RE.match(t.attr):
                        self.writes.add(t.attr)
                    elif not isinstance(t, ast.Name):
                        self.ev(t)
            elif isinstance(s, (ast.For, ast.While, ast.With, ast.Try)):
                for c in ast.iter_child_nodes(s):
                    if isinstance(c, ast.expr):
                        self.ev(c)
                for blk in ("body", "orelse", "finalbody"):
                    self.run(getattr(s, blk, []) or [])
                for h in getattr(s, "handlers", []):
                    self.run(h.body)
            elif isinstance(s, ast.Expr):
                self.ev(s.value)
        return False


def _r1_r2(ctx: Ctx, mod, meths: dict) -> None:
    cp = meths.get("_construct_projection")
    if cp is None:
        raise AnchorError(f"{GO}:MortarProjections._construct_projection missing")
    for p in ("proj_func", "to_mortar", "is_primary"):
        if p not in [a.arg for a in cp.args.args]:
            raise AnchorError(f"{GO}:MortarProjections._construct_projection: parameter `{p}` missing")
    for name, side, x, y, k in _method_names():
        fn = meths.get(name)
        if fn is None:
            raise AnchorError(f"{GO}:MortarProjections.{name} missing")
        q = f"MortarProjections.{name}"
        calls = [c for c in walk_local(fn) if isinstance(c, ast.Call) and u(c.func) == "self._construct_projection"]
        via = None
        if not calls:
            # one level of indirection: a shared private helper that forwards its parameters to _construct_projection
            for oc in [c for c in walk_local(fn) if isinstance(c, ast.Call) and isinstance(c.func, ast.Attribute)
                       and u(c.func.value) == "self" and c.func.attr in meths and c.func.attr.startswith("_")]:
                inner = [c for c in walk_local(meths[oc.func.attr]) if isinstance(c, ast.Call)
                         and u(c.func) == "self._construct_projection"]
                if len(inner) == 1:
                    via = (oc, meths[oc.func.attr], inner[0])
                    calls = [oc]
        if len(calls) != 1:
            raise Undecided(f"{GO}:{q}: expected one call to _construct_projection, found {len(calls)}")
        if via is None:
            a = call_args(calls[0], cp)
        else:
            outer = call_args(via[0], via[1])
            hp = [p_.arg for p_ in via[1].args.args]
            a = {}
            for k_, v_ in call_args(via[2], cp).items():
                if isinstance(v_, ast.Name) and v_.id in hp:
                    from .c26 import param_default
                    v_ = outer.get(v_.id, param_default(via[1], v_.id))
                a[k_] = v_
        lit, tm, ip = a.get("proj_func"), a.get("to_mortar"), a.get("is_primary")
        if not (isinstance(lit, ast.Constant) and isinstance(lit.value, str)):
            raise Undecided(f"{GO}:{q}: proj_func is not a string literal")
        if not all(isinstance(z, ast.Constant) and isinstance(z.value, bool) for z in (tm, ip)):
            raise Undecided(f"{GO}:{q}: to_mortar/is_primary are not boolean literals")
        ctx.check("R1", lit.value == name, mod, q, calls[0],
                  f"{name}() must assemble the per-interface projections MortarGrid.{name}; it asks for '{lit.value}' "
                  f"(integrated and averaged maps coincide on matching grids, so tests on conforming grids cannot see this)",
                  construct=f"{name} -> proj_func='{lit.value}'", facts={"proj_func": lit.value})
        want = (y == "mortar", side == "primary")
        ctx.check("R1", (tm.value, ip.value) == want, mod, q, calls[0],
                  f"{name}() must call _construct_projection with to_mortar={want[0]}, is_primary={want[1]}; found "
                  f"to_mortar={tm.value}, is_primary={ip.value}",
                  construct=f"{name} -> to_mortar={tm.value}, is_primary={ip.value}",
                  facts={"to_mortar": tm.value, "is_primary": ip.value})
        ctx.sample({"rule": "R1", "method": name, "proj_func": lit.value, "to_mortar": tm.value, "is_primary": ip.value})
        flag = f"_is_conforming_{side}"
        body = [s for s in fn.body]
        for val in (True, False):
            pe = _PE(flag, val)
            pe.run(body)
            expect = f"_{x}_to_{y}" if val else f"_{x}_to_{y}_{k}"
            used = pe.reads | pe.writes
            ok = used <= {expect} and not pe.other_flags
            ctx.check("R2", ok, mod, q, fn,
                      f"with {flag}={val} the only cache slot {name}() may read, return or fill is self.{expect}; it touches "
                      f"{sorted(used)}" + (f" and consults {sorted(pe.other_flags)}" if pe.other_flags else ""),
                      construct=f"{name} [{flag}={val}] slots read {sorted(pe.reads)} written {sorted(pe.writes)}",
                      facts={"reads": sorted(pe.reads), "writes": sorted(pe.writes), "expected": expect})
        # what is stored is what was constructed
        if via is not None:
            continue
        res_names = {t.id for s in stmts_local(fn) if isinstance(s, ast.Assign) and s.value is calls[0]
                     for t in s.targets if isinstance(t, ast.Name)}
        for s in stmts_local(fn):
            if isinstance(s, ast.Assign):
                for t in s.targets:
                    if isinstance(t, ast.Attribute) and u(t.value) == "self" and SLOT_RE.match(t.attr):
                        if not ((isinstance(s.value, ast.Name) and s.value.id in res_names) or s.value is calls[0]):
                            raise Undecided(f"{GO}:{q}: cache slot {t.attr} filled with `{u(s.value)[:50]}`")


# ---------------------------------------------------------------------------------------
# R3 _construct_projection
# ---------------------------------------------------------------------------------------

def _is_transposed(e: ast.expr) -> tuple[ast.expr, bool]:
    if isinstance(e, ast.Attribute) and e.attr == "T":
        return e.value, True
    if isinstance(e, ast.Call) and isinstance(e.func, ast.Attribute) and e.func.attr == "transpose" and not e.args:
        return e.func.value, True
    return e, False


def _list_order(it: ast.expr, want: str) -> Optional[bool]:
    """True: iterates `want` in its own order; False: a re-ordering/deduplicating wrapper; None: something else."""
    if u(it) == want:
        return True
    if isinstance(it, ast.Call) and call_name(it) in ("list", "tuple") and len(it.args) == 1:
        return _list_order(it.args[0], want)
    if isinstance(it, ast.Call) and call_name(it) in ORDER_BREAKERS and it.args and want in u(it.args[0]):
        return False
    if isinstance(it, ast.Subscript) and u(it.value) == want and u(it.slice) == "::-1":
        return False
    return None


def _one_per_iteration(f: Fn, loop: ast.For, stmts: list[ast.stmt]) -> tuple[bool, bool]:
    """(every pass through the loop body executes at least one of stmts, no pass executes two)."""
    inside = {id(n) for s in loop.body for n in ast.walk(s)}
    g = f.cfg.g
    ln = f.node(loop)
    A = {f.node(s) for s in stmts}

    def walk_from(starts, stop):
        seen, stack, hit_loop, hit_stop = set(), list(starts), False, False
        while stack:
            x = stack.pop()
            if x in seen:
                continue
            seen.add(x)
            if x == ln:
                hit_loop = True
                continue
            if x in stop:
                hit_stop = True
                continue
            if x not in f.cfg.stmt or id(f.cfg.stmt[x]) not in inside:
                continue
            stack.extend(g.successors(x))
        return hit_loop, hit_stop

    starts = [m for m in g.successors(ln) if g.edges[ln, m].get("cond") is True]
    missed, _ = walk_from(starts, A)
    twice = False
    for a in A:
        _, again = walk_from(list(g.successors(a)), A)
        twice = twice or again
    return (not missed), (not twice)


def _r3(ctx: Ctx, mod, meths: dict) -> None:
    fn = meths["_construct_projection"]
    q = "MortarProjections._construct_projection"
    f = Fn(fn, GO, q)
    loops = [n for n in walk_local(fn) if isinstance(n, ast.For) and isinstance(n.target, ast.Name)
             and any(isinstance(c, ast.Call) and call_name(c) == "getattr" and c.args and u(c.args[0]) == n.target.id
                     for c in ast.walk(n))]
    if len(loops) != 1:
        raise Undecided(f"{GO}:{q}: expected one loop applying getattr(<interface>, proj_func), found {len(loops)}")
    loop = loops[0]
    iv = loop.target.id
    order = _list_order(loop.iter, "self._interfaces")
    if order is None:
        raise Undecided(f"{GO}:{q}: interface loop iterates `{u(loop.iter)}`")
    ctx.check("R3", order, mod, q, loop.iter, "blocks must follow the order of the listed interfaces (self._interfaces)",
              construct=f"interface order: {u(loop.iter)}")
    # (d) one block per interface
    apps = [s for s in ast.walk(loop) if isinstance(s, ast.Expr) and isinstance(s.value, ast.Call)
            and call_name(s.value) == "append" and isinstance(s.value.func.value, ast.Name)]
    lists = {s.value.func.value.id for s in apps}
    if len(lists) != 1:
        raise Undecided(f"{GO}:{q}: blocks are appended to {sorted(lists)}")
    L = lists.pop()
    every, once = _one_per_iteration(f, loop, apps)
    ctx.check("R3", every and once, mod, q, loop,
              f"every listed interface must contribute exactly one block to `{L}` (also when its subdomain is not listed), else "
              f"the blocks of all later interfaces land at the wrong global offset",
              construct=f"one {L}.append per interface", facts={"every_iteration": every, "at_most_once": once})
    # projections dictionaries
    pnames = {}
    face_extra: list[str] = []
    for s in stmts_local(fn):
        if isinstance(s, ast.Assign) and isinstance(s.value, ast.Call) and call_name(s.value) in (
                "_face_projections", "_cell_projections") and isinstance(s.targets[0], ast.Name):
            pnames.setdefault(s.targets[0].id, []).append(s)
            ok = [u(a) for a in s.value.args] == ["self._subdomains", "self.dim"] and not s.value.keywords
            ctx.check("R3", ok, mod, q, s,
                      "the subdomain prolongations must be built for the listed subdomains and this object's dim: "
                      f"{call_name(s.value)}(self._subdomains, self.dim)", construct=u(s.value))
            if call_name(s.value) == "_face_projections":
                pol = guard_polarity(f, s, "is_primary")
                encl = f.enclosing(s, (ast.If,))
                conj = []
                if encl:
                    t = encl[0][0].test
                    conj = t.values if isinstance(t, ast.BoolOp) and isinstance(t.op, ast.And) else [t]
                prim = any(u(c) == "is_primary" for c in conj) and f.in_body(encl[0][0], encl[0][1]) if encl else False
                if not prim and pol is not True:
                    raise Undecided(f"{GO}:{q}: face projections not selected under is_primary")
                face_extra = [u(c) for c in conj if u(c) != "is_primary"]
    if len(pnames) != 1:
        raise Undecided(f"{GO}:{q}: expected one dictionary of subdomain projections, found {sorted(pnames)}")
    P = next(iter(pnames))
    if {call_name(s.value) for s in pnames[P]} != {"_face_projections", "_cell_projections"}:
        raise AnchorError(f"{GO}:{q}: face and cell projection arms not both present")
    sdvars = {u(n.slice) for n in ast.walk(loop) if isinstance(n, ast.Subscript) and u(n.value) == P}
    if len(sdvars) != 1:
        raise Undecided(f"{GO}:{q}: `{P}` indexed by {sorted(sdvars)}")
    sdv = sdvars.pop()
    # (a) which subdomain of the pair
    sel_calls = [c for c in ast.walk(loop) if isinstance(c, ast.Call) and call_name(c) == "interface_to_subdomain_pair"]
    if not sel_calls:
        raise AnchorError(f"{GO}:{q}: interface_to_subdomain_pair not consulted")
    for c in sel_calls:
        if [u(a_) for a_ in c.args] != [iv]:
            raise Undecided(f"{GO}:{q}: pair looked up for `{u(c.args[0]) if c.args else ''}`")
    n_sel = 0
    pair_names = set()
    for s in [x for x in ast.walk(loop) if isinstance(x, ast.Assign) and x.value in sel_calls]:
        t = s.targets[0]
        if isinstance(t, ast.Tuple) and len(t.elts) == 2:
            pos = [i for i, el in enumerate(t.elts) if u(el) == sdv]
            pol = guard_polarity(f, s, "is_primary")
            if pol is None and len(pos) != 1:
                # both names kept: the choice is made later (p, s = pair; sd = p if is_primary else s)
                for i, el in enumerate(t.elts):
                    if isinstance(el, ast.Name):
                        pair_names.add((el.id, i))
                continue
            if pol is None or len(pos) != 1:
                raise Undecided(f"{GO}:{q}: cannot relate `{u(s)}` to is_primary")
            n_sel += 1
            ctx.check("R3", pos[0] == (0 if pol else 1), mod, q, s,
                      f"with is_primary={pol} the relevant subdomain is position {0 if pol else 1} of the interface's (primary, "
                      f"secondary) pair; position {pos[0]} is used",
                      construct=f"is_primary={pol}: {u(s)}", facts={"position": pos[0]})
        elif isinstance(t, ast.Name):
            pair_names.add((t.id, None))
        else:
            raise Undecided(f"{GO}:{q}: pair assigned to `{u(t)}`")
    whole = {n_ for n_, i_ in pair_names if i_ is None}
    single = {n_: i_ for n_, i_ in pair_names if i_ is not None}
    for n in ast.walk(loop):
        pos = None
        if isinstance(n, ast.Subscript) and isinstance(n.slice, ast.Constant) and n.slice.value in (0, 1) and (
                (isinstance(n.value, ast.Name) and n.value.id in whole) or n.value in sel_calls):
            pos = n.slice.value
        elif isinstance(n, ast.Name) and isinstance(n.ctx, ast.Load) and n.id in single:
            pos = single[n.id]
        if pos is None:
            continue
        st = f.stmt_of(n)
        if not (isinstance(st, ast.Assign) and u(st.targets[0]) == sdv):
            continue
        pol = guard_polarity(f, n, "is_primary")
        if pol is None:
            raise Undecided(f"{GO}:{q}: `{u(n)}` chosen for `{sdv}` without reference to is_primary")
        n_sel += 1
        ctx.check("R3", pos == (0 if pol else 1), mod, q, n,
                  f"with is_primary={pol} the relevant subdomain is position {0 if pol else 1} of the interface's (primary, "
                  f"secondary) pair; position {pos} is used",
                  construct=f"is_primary={pol}: {sdv} = pair[{pos}]", facts={"position": pos})
    if n_sel < 2:
        raise Undecided(f"{GO}:{q}: choice of the pair member by is_primary not found for both values")
    # (b) composition
    comps = []
    for n in ast.walk(loop):
        if isinstance(n, ast.BinOp) and isinstance(n.op, (ast.MatMult, ast.Mult)):
            kinds = []
            for side in (n.left, n.right):
                base, tr = _is_transposed(side)
                if isinstance(base, ast.Name):
                    rv = f.resolve(base, f.stmt_of(n))
                    if len(rv) == 1 and not isinstance(rv[0], ast.Name):
                        base, tr2 = _is_transposed(rv[0])
                        tr = tr != tr2
                if isinstance(base, ast.Subscript) and u(base.value) == P:
                    kinds.append("PT" if tr else "P")
                elif isinstance(base, ast.Call) and isinstance(base.func, ast.Call) and call_name(base.func) == "getattr":
                    g = base.func
                    okg = [u(a) for a in g.args] == [iv, "proj_func"]
                    okd = [u(a) for a in base.args] == ["self.dim"] and not base.keywords
                    kinds.append(("MT" if tr else "M") if okg and okd else ("M?nodim" if okg else "M?"))
                else:
                    kinds.append("?")
            if any(k.startswith("M") for k in kinds):
                comps.append((n, kinds))
    if len(comps) < 2:
        raise Undecided(f"{GO}:{q}: composition of interface projection and subdomain prolongation not found")
    for n, kinds in comps:
        pol = guard_polarity(f, n, "to_mortar")
        if pol is None or "?" in kinds or "M?" in kinds:
            raise Undecided(f"{GO}:{q}: composition `{u(n)[:70]}` not classifiable")
        want = ["M", "PT"] if pol else ["P", "M"]
        ctx.check("R3", kinds == want, mod, q, n,
                  f"to_mortar={pol}: the local block must be "
                  f"{'getattr(intf, proj_func)(self.dim) @ proj[sd].T' if pol else 'proj[sd] @ getattr(intf, proj_func)(self.dim)'}"
                  f"; found operand kinds {kinds}",
                  construct=f"to_mortar={pol}: {u(n)}", facts={"operands": kinds})
    # (c) stacking
    stack_seen = set()

    def stack_shape(a: ast.expr) -> Optional[str]:
        if isinstance(a, ast.ListComp) and isinstance(a.elt, ast.List) and len(a.elt.elts) == 1 and len(a.generators) == 1 \
                and u(a.elt.elts[0]) == u(a.generators[0].target) and u(a.generators[0].iter) == L and not a.generators[0].ifs:
            return "vertical"
        if isinstance(a, ast.List) and len(a.elts) == 1 and u(a.elts[0]) == L:
            return "horizontal"
        return None

    for r in [s for s in stmts_local(fn) if isinstance(s, ast.Return) and isinstance(s.value, ast.Call)
              and call_name(s.value) in ("_bmat", "bmat") and s.value.args]:
        a = r.value.args[0]
        if isinstance(a, ast.Name):
            ra = f.resolve(a, r)
            a = ra[0] if len(ra) == 1 else a
        alts: list[tuple[ast.expr, Optional[bool]]] = []
        if isinstance(a, ast.IfExp) and u(a.test) in ("to_mortar", "not to_mortar"):
            neg = u(a.test) != "to_mortar"
            alts = [(a.body, not neg), (a.orelse, neg)]
        else:
            alts = [(a, guard_polarity(f, r, "to_mortar"))]
        for arm, pol in alts:
            shape = stack_shape(arm)
            if shape is None:
                raise Undecided(f"{GO}:{q}: stacking `{u(arm)}` not classifiable")
            if pol is None:
                raise Undecided(f"{GO}:{q}: stacking not selected by to_mortar")
            stack_seen.add(pol)
            ctx.check("R3", shape == ("vertical" if pol else "horizontal"), mod, q, r,
                      f"to_mortar={pol}: per-interface blocks must be stacked {'vertically (one row block per interface)' if pol else 'horizontally (one column block per interface)'}",
                      construct=f"to_mortar={pol}: {shape} stack", facts={"stack": shape})
    if stack_seen != {True, False}:
        raise AnchorError(f"{GO}:{q}: stacking arms not found")
    # (g) empty blocks and sizes
    for n in ast.walk(fn):
        if isinstance(n, ast.Call) and call_name(n) in ("dia_matrix", "csr_matrix", "csc_matrix", "coo_matrix") and n.args \
                and isinstance(n.args[0], ast.Tuple) and len(n.args[0].elts) == 2:
            elts = n.args[0].elts
            kinds = []
            for e in elts:
                if isinstance(e, ast.Name) and e.id != "non_mortar_size":
                    re_ = f.resolve(e, f.stmt_of(n))
                    e = re_[0] if len(re_) == 1 else e
                if "non_mortar_size" in names_in(e):
                    kinds.append("non")
                elif f"{iv}.num_cells" in u(e):
                    kinds.append("mortar" if "self.dim" in u(e) else "mortar-nodim")
                elif isinstance(e, ast.Constant) and e.value == 0:
                    kinds.append("0")
                else:
                    kinds.append("?")
            if "non" not in kinds:
                continue
            pol = guard_polarity(f, n, "to_mortar")
            if pol is None or "?" in kinds:
                raise Undecided(f"{GO}:{q}: empty block `{u(n)}` not classifiable")
            other = [k for k in kinds if k != "non"][0]
            want = [other, "non"] if pol else ["non", other]
            ok = kinds == want and other in ("mortar", "0")
            ctx.check("R3", ok, mod, q, n,
                      f"to_mortar={pol}: an empty block must have shape "
                      f"{'(mortar size * dim, non-mortar size)' if pol else '(non-mortar size, mortar size * dim)'}; found {kinds}",
                      construct=f"to_mortar={pol}: empty block {u(n.args[0])}", facts={"shape": kinds})
    sizes = [s for s in stmts_local(fn) if isinstance(s, ast.Assign) and u(s.targets[0]) == "non_mortar_size"]
    if not sizes:
        raise AnchorError(f"{GO}:{q}: non_mortar_size not computed")
    size_cases: list[tuple[ast.stmt, Optional[bool], str]] = []
    for s in sizes:
        inner_names = [n for n in ast.walk(s.value) if isinstance(n, ast.Name) and isinstance(n.ctx, ast.Load)]
        expanded = False
        for n in inner_names:
            ds, entry = f.reaching(n.id, s)
            ds = [d for d in ds if d[1] == "assign"]
            if ds and not entry and all(guard_polarity(f, d[0], "is_primary") is not None for d in ds):
                from ..core.astutil import subst
                for d in ds:
                    size_cases.append((s, guard_polarity(f, d[0], "is_primary"), u(subst(s.value, {n.id: d[2]}))))
                expanded = True
                break
        if not expanded:
            size_cases.append((s, guard_polarity(f, s, "is_primary"), u(s.value)))
    for s, pol, txt in size_cases:
        if pol is True and ".num_faces" in txt and face_extra and not any(
                "codim" in u(p.test) for p, _ in f.enclosing(s, (ast.If,))):
            ctx.note(f"observation (reported, not armed): {q}: for is_primary the non-mortar size counts faces unconditionally, "
                     f"while face prolongations are used only when `{' and '.join(face_extra)}` also holds (else cell "
                     f"prolongations): for codimension-2 interfaces the empty block of an interface whose primary subdomain is "
                     f"not listed, and the no-interface shortcut, are sized by faces although the sibling blocks live on cells")
        ok = "self.dim" in txt and "self._subdomains" in txt and (pol is not False or ".num_cells" in txt)
        ctx.check("R3", ok, mod, q, s,
                  "the non-mortar size must be self.dim times the entity count summed over self._subdomains (cells for the secondary side)",
                  construct=f"is_primary={pol}: non_mortar_size = {txt}")


# ---------------------------------------------------------------------------------------
# R4 SubdomainProjections
# ---------------------------------------------------------------------------------------

def _r4(ctx: Ctx, mod) -> None:
    cls = mod.cls("SubdomainProjections")
    meths = methods(cls)
    init = meths.get("__init__")
    if init is None:
        raise AnchorError(f"{GO}:SubdomainProjections.__init__ missing")
    iparams = [a.arg for a in init.args.args if a.arg != "self"]
    for ent in ("cell", "face"):
        tots = [s for s in stmts_local(init) if isinstance(s, (ast.Assign, ast.AnnAssign))
                and any(u(t) == f"self._tot_num_{ent}s" for t in assigned_targets(s))]
        if len(tots) != 1:
            raise AnchorError(f"{GO}:SubdomainProjections.__init__: self._tot_num_{ent}s not set once")
        v = tots[0].value
        comp = v.args[0] if isinstance(v, ast.Call) and call_name(v) == "sum" and v.args else None
        if not (isinstance(comp, (ast.ListComp, ast.GeneratorExp)) and len(comp.generators) == 1):
            raise Undecided(f"{GO}:SubdomainProjections.__init__: self._tot_num_{ent}s = {u(v)[:60]}")
        g = comp.generators[0]
        ok = u(g.iter) == iparams[0] and not g.ifs and u(comp.elt) == f"{u(g.target)}.num_{ent}s"
        ctx.check("R4", ok, mod, "SubdomainProjections.__init__", tots[0],
                  f"self._tot_num_{ent}s must be the sum of num_{ent}s over the listed subdomains (it sizes the empty-list "
                  f"{ent} restriction/prolongation)", construct=u(tots[0]))
    for ent in ("cell", "face"):
        slot, builder, total = f"_{ent}_projections", f"_{ent}_projections", f"_tot_num_{ent}s"
        for kind in ("restriction", "prolongation"):
            name = f"{ent}_{kind}"
            fn = meths.get(name)
            if fn is None:
                raise AnchorError(f"{GO}:SubdomainProjections.{name} missing")
            q = f"SubdomainProjections.{name}"
            f = Fn(fn, GO, q)
            params = [a.arg for a in fn.args.args if a.arg != "self"]
            if len(params) != 1:
                raise AnchorError(f"{GO}:{q}: signature changed")
            arg = params[0]
            # (i) construction of the per-grid maps: in this method, in a helper it calls, or eagerly in __init__
            def builds_in(fd: ast.FunctionDef):
                return [s_ for s_ in stmts_local(fd) if isinstance(s_, (ast.Assign, ast.AnnAssign)) and s_.value is not None
                        and any(isinstance(t_, ast.Attribute) and u(t_.value) == "self" and t_.attr.endswith("_projections")
                                for t_ in assigned_targets(s_))
                        and not (isinstance(s_.value, ast.Constant) and s_.value.value is None)]

            cands: list[tuple[ast.FunctionDef, ast.stmt]] = [(fn, b_) for b_ in builds_in(fn)]
            if not cands:
                for c_ in [c for c in walk_local(fn) if isinstance(c, ast.Call) and isinstance(c.func, ast.Attribute)
                           and u(c.func.value) == "self" and c.func.attr in meths]:
                    cands += [(meths[c_.func.attr], b_) for b_ in builds_in(meths[c_.func.attr])
                              if any(isinstance(t_, ast.Attribute) and t_.attr == slot for t_ in assigned_targets(b_))]
            if not cands:
                cands = [(init, b_) for b_ in builds_in(init)
                         if any(isinstance(t_, ast.Attribute) and t_.attr == slot for t_ in assigned_targets(b_))]
            if len(cands) != 1:
                raise Undecided(f"{GO}:{q}: expected one construction of the per-grid maps, found {len(cands)}")
            owner, b = cands[0]
            fo = f if owner is fn else Fn(owner, GO, f"SubdomainProjections.{owner.name}")
            v = b.value
            tgt = [t_.attr for t_ in assigned_targets(b) if isinstance(t_, ast.Attribute)][0]
            in_none = [p for p, c in fo.enclosing(b, (ast.If,)) if fo.in_body(p, c) and " is None" in u(p.test)]
            guard_ok = all(u(p.test) == f"self.{tgt} is None" for p in in_none) and (bool(in_none) or owner is init)
            want_args = [iparams[0], iparams[1]] if owner is init else ["self._all_subdomains", "self.dim"]
            alt_args = ["self._all_subdomains", "self.dim"]
            ok = (tgt == slot and isinstance(v, ast.Call) and call_name(v) == builder
                  and [u(a) for a in v.args] in (want_args, alt_args) and not v.keywords and guard_ok)
            ctx.check("R4", ok, mod, q, b,
                      f"{name} must rely on self.{slot} = {builder}(<all subdomains>, <dim>), built eagerly or when (and only when) "
                      f"that slot is None", construct=f"{name}: {u(b)}", facts={"guarded_by_own_slot": guard_ok, "in": owner.name})
            # (ii) assembly from the argument list
            bm = [c for c in walk_local(fn) if isinstance(c, ast.Call) and call_name(c) == "bmat" and c.args]
            if len(bm) != 1:
                raise Undecided(f"{GO}:{q}: expected one bmat assembly")
            a = bm[0].args[0]
            if isinstance(a, ast.Name):
                ra = f.resolve(a, f.stmt_of(bm[0]))
                a = ra[0] if len(ra) == 1 else a
            comp = None
            if isinstance(a, ast.ListComp) and isinstance(a.elt, ast.List) and len(a.elt.elts) == 1:
                comp, elt, shape = a, a.elt.elts[0], "vertical"
            elif isinstance(a, ast.List) and len(a.elts) == 1 and isinstance(a.elts[0], ast.ListComp):
                comp, elt, shape = a.elts[0], a.elts[0].elt, "horizontal"
            if comp is None or len(comp.generators) != 1 or comp.generators[0].ifs:
                raise Undecided(f"{GO}:{q}: assembly `{u(a)[:70]}` not classifiable")
            gen = comp.generators[0]
            base, tr = _is_transposed(elt)
            if isinstance(base, ast.Subscript) and isinstance(base.value, (ast.Name, ast.Call)):
                rb = f.resolve(base.value, f.stmt_of(bm[0])) if isinstance(base.value, ast.Name) else [base.value]
                if len(rb) == 1 and isinstance(rb[0], ast.Call) and isinstance(rb[0].func, ast.Attribute) \
                        and u(rb[0].func.value) == "self" and rb[0].func.attr in meths and not rb[0].args:
                    # a getter that returns the stored map
                    hr = [r_.value for r_ in stmts_local(meths[rb[0].func.attr]) if isinstance(r_, ast.Return) and r_.value is not None]
                    if hr and all(isinstance(x, ast.Attribute) and u(x.value) == "self" for x in hr) and len({u(x) for x in hr}) == 1:
                        rb = [hr[0]]
                if len(rb) == 1 and isinstance(rb[0], ast.Attribute):
                    base = ast.Subscript(value=rb[0], slice=base.slice, ctx=ast.Load())
            if not (isinstance(base, ast.Subscript) and isinstance(base.value, ast.Attribute) and u(base.value.value) == "self"):
                raise Undecided(f"{GO}:{q}: block `{u(elt)}` is not an entry of a stored per-grid map")
            order = _list_order(gen.iter, arg)
            if order is None and u(gen.iter) != "self._all_subdomains":
                raise Undecided(f"{GO}:{q}: assembly iterates `{u(gen.iter)}`")
            want_shape, want_tr = ("vertical", True) if kind == "restriction" else ("horizontal", False)
            ok = (base.value.attr == slot and u(base.slice) == u(gen.target) and order is True
                  and shape == want_shape and tr == want_tr)
            ctx.check("R4", ok, mod, q, bm[0],
                      f"{name}({arg}) must stack {'the transposes ' if want_tr else ''}self.{slot}[sd] {want_shape}ly for sd in "
                      f"`{arg}` in the given order; found map self.{base.value.attr}, transposed={tr}, {shape}, iterating `{u(gen.iter)}`",
                      construct=f"{name}: {u(a)}",
                      facts={"map": base.value.attr, "transposed": tr, "stack": shape, "iterates": u(gen.iter)})
            ctx.sample({"rule": "R4", "method": name, "map": base.value.attr, "transposed": tr, "stack": shape,
                        "iterates": u(gen.iter)})
            # (iii) empty list
            empties = [c for c in walk_local(fn) if isinstance(c, ast.Call) and call_name(c) in ("csr_matrix", "csc_matrix", "coo_matrix")
                       and c.args and isinstance(c.args[0], ast.Tuple) and len(c.args[0].elts) == 2]
            if len(empties) != 1:
                raise Undecided(f"{GO}:{q}: expected one empty-list matrix")
            e0, e1 = empties[0].args[0].elts
            zero_first = isinstance(e0, ast.Constant) and e0.value == 0
            zero_second = isinstance(e1, ast.Constant) and e1.value == 0
            sz = e1 if zero_first else e0
            ok = (zero_first != zero_second) and (zero_first == (kind == "restriction")) and \
                f"self.{total}" in u(sz) and "self.dim" in u(sz)
            ctx.check("R4", ok, mod, q, empties[0],
                      f"{name}([]) must have shape {'(0, N)' if kind == 'restriction' else '(N, 0)'} with N = self.{total} * self.dim",
                      construct=f"{name}: empty {u(empties[0].args[0])}")


# ---------------------------------------------------------------------------------------
# R5 builders
# ---------------------------------------------------------------------------------------

NONEMPTY_GUARDS = ("{sd}.dim > 0", "{sd}.num_{e} > 0", "{sz} > 0", "{ind}.size > 0", "len({ind}) > 0")


def _r5(ctx: Ctx, mod) -> None:
    for ent, attr in (("cell", "num_cells"), ("face", "num_faces")):
        name = f"_{ent}_projections"
        fn = mod.func(name)
        f = Fn(fn, GO, name)
        params = [a.arg for a in fn.args.args]
        if len(params) != 2:
            raise AnchorError(f"{GO}:{name}: signature changed")
        grids, dim = params
        loops = [s for s in fn.body if isinstance(s, ast.For)]
        if len(loops) != 1:
            raise Undecided(f"{GO}:{name}: expected one top-level loop over the grids")
        loop = loops[0]
        lit = loop.iter
        if isinstance(loop.target, ast.Tuple) and len(loop.target.elts) == 2 and isinstance(lit, ast.Call) \
                and call_name(lit) == "enumerate" and len(lit.args) == 1 and isinstance(loop.target.elts[1], ast.Name):
            sd, lit = loop.target.elts[1].id, lit.args[0]
        elif isinstance(loop.target, ast.Name):
            sd = loop.target.id
        else:
            raise Undecided(f"{GO}:{name}: loop target `{u(loop.target)}` not recognised")
        order = _list_order(lit, grids)
        if order is None:
            raise Undecided(f"{GO}:{name}: loop iterates `{u(loop.iter)}`")
        ctx.check("R5", order, mod, name, loop.iter,
                  f"the global numbering must follow the order of the listed grids: iterate `{grids}` itself",
                  construct=f"{name}: for {sd} in {u(loop.iter)}")
        # the stored block
        stores = [s for s in loop.body if isinstance(s, ast.Assign) and isinstance(s.targets[0], ast.Subscript)
                  and isinstance(s.targets[0].value, ast.Name)]
        if len(stores) != 1:
            raise Undecided(f"{GO}:{name}: expected one dictionary store per grid")
        st = stores[0]
        D = st.targets[0].value.id
        v = st.value
        for _ in range(4):
            if isinstance(v, ast.Call) and isinstance(v.func, ast.Attribute) and v.func.attr in ("tocsc", "tocsr", "tocoo"):
                v = v.func.value
            elif isinstance(v, ast.Name):
                rv = f.resolve(v, st)
                if len(rv) != 1 or rv[0] is v:
                    break
                v = rv[0]
            else:
                break
        if isinstance(v, ast.Call) and v.args and isinstance(v.args[0], ast.Name):
            ra = f.resolve(v.args[0], st)
            if len(ra) == 1:
                v.args[0] = ra[0]
        if not (isinstance(v, ast.Call) and call_name(v) in ("coo_matrix", "csc_matrix", "csr_matrix") and v.args
                and isinstance(v.args[0], ast.Tuple) and len(v.args[0].elts) == 2
                and isinstance(v.args[0].elts[1], ast.Tuple) and len(v.args[0].elts[1].elts) == 2):
            raise Undecided(f"{GO}:{name}: block is not sparse((data, (rows, cols)), shape=...)")
        rows, cols = v.args[0].elts[1].elts
        shp = kwarg(v, "shape")
        if not (isinstance(shp, ast.Tuple) and len(shp.elts) == 2):
            raise Undecided(f"{GO}:{name}: block has no literal shape")

        from ..core.astutil import inline_locals

        def inl(e):
            # plain single-assignment temporaries are looked through (the running offset has two definitions and stays)
            return inline_locals(fn, e, stop={sd, grids, dim})

        rows_e, sz_e, tot_e = inl(rows), inl(shp.elts[1]), inl(shp.elts[0])
        IND = rows.id if isinstance(rows, ast.Name) else None
        SZ = shp.elts[1].id if isinstance(shp.elts[1], ast.Name) else None
        # size of one block
        sz_ok = isinstance(sz_e, ast.BinOp) and isinstance(sz_e.op, ast.Mult) and \
            {u(sz_e.left), u(sz_e.right)} == {f"{sd}.{attr}", dim}
        cols = inl(cols) if isinstance(cols, ast.Name) else cols
        cols_ok = isinstance(cols, ast.Call) and call_name(cols) == "arange" and len(cols.args) == 1 and \
            u(inl(cols.args[0])) == u(sz_e)
        ctx.check("R5", sz_ok and cols_ok and u(st.targets[0].slice) == sd, mod, name, st,
                  f"block of grid `{sd}` must be stored under `{sd}` with {sd}.{attr} * {dim} columns numbered arange(size)",
                  construct=f"{name}: block width {u(sz_e)}, cols {u(cols)}", facts={"width": u(sz_e), "key": u(st.targets[0].slice)})
        # rows = offset + expand(arange(n), dim)
        OFF = None
        rows_ok = False
        if isinstance(rows_e, ast.BinOp) and isinstance(rows_e.op, ast.Add):
            for a, b in ((rows_e.left, rows_e.right), (rows_e.right, rows_e.left)):
                if isinstance(a, ast.Name) and isinstance(b, ast.Call) and call_name(b) == "expand_indices_nd":
                    OFF = a.id
                    ea = b.args
                    rows_ok = len(ea) >= 2 and u(ea[0]) == f"np.arange({sd}.{attr})" and u(ea[1]) == dim
        if OFF is None:
            raise Undecided(f"{GO}:{name}: row indices `{u(rows_e)[:70]}` are not offset + expand_indices_nd(...)")
        ctx.check("R5", rows_ok, mod, name, rows_e,
                  f"rows of block `{sd}` must be {OFF} + expand_indices_nd(np.arange({sd}.{attr}), {dim})",
                  construct=f"{name}: rows {u(rows_e)}")
        # total height
        tot_ok = False
        if isinstance(tot_e, ast.BinOp) and isinstance(tot_e.op, ast.Mult):
            for a, b in ((tot_e.left, tot_e.right), (tot_e.right, tot_e.left)):
                if u(b) == dim and isinstance(a, ast.Call) and call_name(a) == "sum" and a.args:
                    comp = a.args[0]
                    if isinstance(comp, (ast.ListComp, ast.GeneratorExp)) and len(comp.generators) == 1 and \
                            u(comp.generators[0].iter) == grids and u(comp.elt) == f"{u(comp.generators[0].target)}.{attr}":
                        tot_ok = True
        ctx.check("R5", tot_ok, mod, name, tot_e,
                  f"the global height must be sum({attr} over `{grids}`) * {dim}", construct=f"{name}: height {u(tot_e)}")
        # offset: starts at 0, advanced to one past the block, after its use
        inits = [s for s in fn.body if isinstance(s, ast.Assign) and u(s.targets[0]) == OFF]
        ctx.check("R5", len(inits) == 1 and isinstance(inits[0].value, ast.Constant) and inits[0].value.value == 0
                  and fn.body.index(inits[0]) < fn.body.index(loop), mod, name, inits[0] if inits else fn,
                  f"the running offset `{OFF}` must start at 0 before the loop", construct=f"{name}: {OFF} initialised")
        ups = [s for s in ast.walk(loop) if isinstance(s, (ast.Assign, ast.AugAssign))
               and any(u(t) == OFF for t in assigned_targets(s))]
        if len(ups) != 1:
            raise Undecided(f"{GO}:{name}: expected one update of `{OFF}` per iteration, found {len(ups)}")
        up = ups[0]
        form = None
        if isinstance(up, ast.Assign):
            val = up.value
            if isinstance(val, ast.BinOp) and isinstance(val.op, ast.Add):
                pair = {u(val.left), u(val.right)}
                if IND and pair == {f"{IND}[-1]", "1"}:
                    form = "last+1"
                elif OFF in pair and (pair - {OFF}) and u(inl(ast.parse(list(pair - {OFF})[0], mode="eval").body)) == u(sz_e):
                    form = "offset+size"
                elif OFF in pair:
                    form = f"offset+{list(pair - {OFF})[0] if pair - {OFF} else OFF}"
                else:
                    form = f"bad:{u(val)}"
            else:
                form = f"bad:{u(val)}"
        else:
            if isinstance(up.op, ast.Add) and u(inl(up.value)) == u(sz_e):
                form = "offset+size"
            else:
                form = f"bad:{OFF} {type(up.op).__name__} {u(up.value)}"
        # position: after the rows were computed from the old offset
        rows_stmt = None
        for s in loop.body:
            if isinstance(s, ast.Assign) and IND and u(s.targets[0]) == IND:
                rows_stmt = s
        rows_stmt = rows_stmt or st
        top = up
        guards = []
        while f.pm[top] is not loop:
            top = f.pm[top]
            if isinstance(top, ast.If):
                guards.append(top)
        after = loop.body.index(top) > loop.body.index(rows_stmt) if (top in loop.body and rows_stmt in loop.body) else None
        if after is None:
            raise Undecided(f"{GO}:{name}: cannot order the offset update and the row computation")
        for g in guards:
            allowed = {t.format(sd=sd, e=ent + "s", sz=SZ or "?", ind=IND or "?") for t in NONEMPTY_GUARDS}
            if u(g.test) not in allowed or g.orelse:
                raise Undecided(f"{GO}:{name}: offset update guarded by `{u(g.test)}` (only non-emptiness guards are enumerated)")
        ok = form in ("last+1", "offset+size") and after
        ctx.check("R5", ok, mod, name, up,
                  f"after emitting block `{sd}` the offset must move to one past it ({IND}[-1] + 1 or {OFF} + {sd}.{attr}*{dim}), "
                  f"after the rows were computed; found form `{form}`, after_rows={after}",
                  construct=f"{name}: {u(up)}", facts={"form": form, "after_rows": after, "guards": [u(g.test) for g in guards]})
        ctx.sample({"rule": "R5", "builder": name, "rows": u(rows_e), "width": u(sz_e), "height": u(tot_e), "offset_update": u(up)})
        rets = [s for s in fn.body if isinstance(s, ast.Return)]
        ctx.check("R5", bool(rets) and u(rets[-1].value) == D, mod, name, rets[-1] if rets else fn,
                  f"the dictionary of blocks `{D}` must be returned", construct=f"{name}: return {D}")


# ---------------------------------------------------------------------------------------
# R6 BoundaryProjection
# ---------------------------------------------------------------------------------------

def _r6(ctx: Ctx, mod) -> None:
    cls = mod.cls("BoundaryProjection")
    meths = methods(cls)
    init = meths.get("__init__")
    if init is None:
        raise AnchorError(f"{GO}:BoundaryProjection.__init__ missing")
    q = "BoundaryProjection.__init__"
    f = Fn(init, GO, q)
    params = [a.arg for a in init.args.args if a.arg != "self"]
    if params[:3] != ["mdg", "subdomains", "dim"]:
        raise AnchorError(f"{GO}:{q}: signature changed")
    fp = [s for s in stmts_local(init) if isinstance(s, ast.Assign) and isinstance(s.value, ast.Call)
          and call_name(s.value) == "_face_projections"]
    if len(fp) != 1:
        raise AnchorError(f"{GO}:{q}: _face_projections not called once")
    P = u(fp[0].targets[0])
    ctx.check("R6", [u(a) for a in fp[0].value.args] == ["subdomains", "dim"], mod, q, fp[0],
              "face prolongations must be built for the same list and dimension as the boundary projection",
              construct=u(fp[0].value))
    loops = [s for s in init.body if isinstance(s, ast.For)]
    if len(loops) != 1 or not isinstance(loops[0].target, ast.Name):
        raise Undecided(f"{GO}:{q}: expected one loop over the subdomains")
    loop = loops[0]
    sd = loop.target.id
    order = _list_order(loop.iter, "subdomains")
    if order is None:
        raise Undecided(f"{GO}:{q}: loop iterates `{u(loop.iter)}`")
    apps = [s for s in ast.walk(loop) if isinstance(s, ast.Expr) and isinstance(s.value, ast.Call) and call_name(s.value) == "append"]
    every, once = _one_per_iteration(f, loop, apps) if apps else (False, False)
    ctx.check("R6", bool(order) and every and once, mod, q, loop,
              "one block per listed subdomain, in list order (also for 0-d subdomains, which contribute an empty block)",
              construct=f"for {sd} in {u(loop.iter)}: one append", facts={"every": every, "once": once})
    # local block
    projs = [c for c in ast.walk(loop) if isinstance(c, ast.Call) and call_name(c) == "projection"]
    if len(projs) != 1:
        raise Undecided(f"{GO}:{q}: expected one bg.projection(...) call")
    pc = projs[0]
    bgv = f.resolve(pc.func.value, f.stmt_of(pc))
    bg_ok = all(isinstance(x, ast.Call) and call_name(x) == "subdomain_to_boundary_grid" and [u(a) for a in x.args] == [sd]
                for x in bgv)
    dim_ok = [u(a) for a in pc.args] == ["dim"] or (kwarg(pc, "nd") is not None and u(kwarg(pc, "nd")) == "dim")
    ctx.check("R6", bg_ok and dim_ok, mod, q, pc,
              f"the local projection must be that of `{sd}`'s own boundary grid, expanded to `dim` components: "
              f"mdg.subdomain_to_boundary_grid({sd}).projection(dim)", construct=f"{u(pc)} with bg={[u(x) for x in bgv]}",
              facts={"uses_dim": dim_ok})
    comp = [n for n in ast.walk(loop) if isinstance(n, ast.BinOp) and isinstance(n.op, (ast.Mult, ast.MatMult))
            and P in names_in(n.right)]
    if len(comp) != 1:
        raise Undecided(f"{GO}:{q}: composition with the face prolongation not found")
    base, tr = _is_transposed(comp[0].right)
    ok = tr and isinstance(base, ast.Subscript) and u(base.value) == P and u(base.slice) == sd
    ctx.check("R6", ok, mod, q, comp[0],
              f"the block must restrict the global face vector to `{sd}` first: <projection> * {P}[{sd}].T",
              construct=u(comp[0]))
    # stacking + the two properties
    stores = [s for s in stmts_local(init) if isinstance(s, ast.Assign) and u(s.targets[0]) == "self._projection"
              and isinstance(s.value, ast.Call) and call_name(s.value) == "bmat"]
    if len(stores) != 1:
        raise Undecided(f"{GO}:{q}: expected one bmat store into self._projection")
    a = stores[0].value.args[0]
    L = apps[0].value.func.value.id if apps else "?"
    vert = isinstance(a, ast.ListComp) and isinstance(a.elt, ast.List) and len(a.elt.elts) == 1 and \
        u(a.elt.elts[0]) == u(a.generators[0].target) and u(a.generators[0].iter) == L and not a.generators[0].ifs
    props = {}
    for pn in ("subdomain_to_boundary", "boundary_to_subdomain"):
        pf = meths.get(pn)
        if pf is None:
            raise AnchorError(f"{GO}:BoundaryProjection.{pn} missing")
        rets = [s for s in stmts_local(pf) if isinstance(s, ast.Return) and s.value is not None]
        reads = [n for r in rets for n in ast.walk(r.value) if isinstance(n, ast.Attribute) and u(n.value) == "self"
                 and n.attr.startswith("_proj")]
        ntr = sum(1 for r in rets for n in ast.walk(r.value)
                  if (isinstance(n, ast.Attribute) and n.attr == "T")
                  or (isinstance(n, ast.Call) and isinstance(n.func, ast.Attribute) and n.func.attr == "transpose"))
        props[pn] = (sorted({n.attr for n in reads}), ntr)
    ok = vert and props["subdomain_to_boundary"] == (["_projection"], 0) and props["boundary_to_subdomain"] == (["_projection"], 1)
    ctx.check("R6", ok, mod, "BoundaryProjection", stores[0],
              "blocks are stacked vertically in list order; boundary_to_subdomain must be the transpose of the very matrix that "
              "subdomain_to_boundary returns", construct=f"stack {u(a)}; properties {props}", facts={"vertical": vert, "properties": props})


# ---------------------------------------------------------------------------------------
# R7 conformity flags
# ---------------------------------------------------------------------------------------

ACC_RE = re.compile(r"^(primary|secondary|mortar)_to_(primary|secondary|mortar)_(int|avg)$")


def _merged_slots(meths: dict) -> dict[str, set[tuple[str, str]]]:
    """flag attribute -> directions (x, y) whose int and avg variants share one cache slot `_x_to_y` while the flag is
    true (read off the partial evaluation of the eight methods)."""
    flags = {n.attr for name, *_ in _method_names() if name in meths for n in ast.walk(meths[name])
             if isinstance(n, ast.Attribute) and u(n.value) == "self" and n.attr.startswith("_is_conforming")}
    out: dict[str, set] = {}
    for fl in sorted(flags):
        for name, *_ in _method_names():
            fn = meths.get(name)
            if fn is None:
                continue
            touched = {}
            for val in (True, False):
                pe = _PE(fl, val)
                pe.run(list(fn.body))
                touched[val] = pe.reads | pe.writes
            for slot in touched[True] - touched[False]:
                m = SLOT_RE.match(slot)
                if m and m.group(3) is None:
                    out.setdefault(fl, set()).add((m.group(1), m.group(2)))
    return out


def _r7(ctx: Ctx, mod, meths: dict) -> None:
    init = meths.get("__init__")
    if init is None:
        raise AnchorError(f"{GO}:MortarProjections.__init__ missing")
    q = "MortarProjections.__init__"
    f = Fn(init, GO, q)
    merged = _merged_slots(meths)
    if not merged:
        ctx.note("R7: no cache slot is shared between int and avg under a flag - nothing to decide")
        return
    iparams = [a.arg for a in init.args.args if a.arg != "self"]
    for flag, dirs in sorted(merged.items()):
        side = flag.replace("_is_conforming_", "")
        stores = [s_ for s_ in stmts_local(init) if isinstance(s_, (ast.Assign, ast.AnnAssign)) and s_.value is not None
                  and any(isinstance(t, ast.Attribute) and u(t.value) == "self" and t.attr == flag for t in assigned_targets(s_))]
        if len(stores) != 1:
            raise AnchorError(f"{GO}:{q}: self.{flag} is not set exactly once")
        src = stores[0].value
        # statements that determine the flag's value
        if isinstance(src, ast.Name):
            local = src.id
            defs = [d for d, k, _ in f.defs(local) if k != "weak"]
        else:
            local, defs = None, [stores[0]]
        if not defs:
            raise Undecided(f"{GO}:{q}: `{u(src)}` has no definition")
        accs: list[tuple[str, ast.Call, str]] = []      # (accessor, call, receiver)
        init_true = False
        lowered = []
        raised_again = []
        for d in defs:
            val = d.value if isinstance(d, (ast.Assign, ast.AnnAssign)) else None
            if val is None:
                raise Undecided(f"{GO}:{q}: `{local}` defined by {type(d).__name__}")
            in_loop = [p for p, _ in f.enclosing(d, (ast.For,))]
            exprs: list[ast.AST] = [val]
            exprs += [p.test for p, _ in f.enclosing(d, (ast.If,))]
            exprs += [p.iter for p in in_loop]
            accumulating = isinstance(val, ast.BoolOp) and isinstance(val.op, ast.And) and local is not None \
                and any(isinstance(x, ast.Name) and x.id == local for x in val.values)
            if isinstance(val, ast.Constant) and val.value is True and not in_loop:
                init_true = True
            elif isinstance(val, ast.Constant) and val.value is False:
                lowered.append(d)
            elif accumulating:
                lowered.append(d)
            elif not in_loop and len(defs) == 1:
                init_true = True          # decided in one expression over all interfaces
            else:
                raised_again.append(d)    # overwritten inside the loop: the last interface would decide alone
            for e in exprs:
                for c in ast.walk(e):
                    if isinstance(c, ast.Call) and isinstance(c.func, ast.Attribute) and ACC_RE.match(c.func.attr) \
                            and isinstance(c.func.value, ast.Name):
                        accs.append((c.func.attr, c, c.func.value.id))
        if not accs:
            raise Undecided(f"{GO}:{q}: cannot see which projections decide self.{flag}")
        names = sorted({a for a, _, _ in accs})
        parsed = [ACC_RE.match(a).groups() for a in names]
        # (1) same side only
        foreign = [a for a, (x, y, k) in zip(names, parsed) if side not in (x, y)]
        ctx.check("R7", not foreign, mod, q, accs[0][1],
                  f"self.{flag} governs the shared slots of the {side} side; it must be decided from {side}-side projections only, "
                  f"found {foreign}", construct=f"{flag} decided from {names}: side", facts={"projections": names})
        # (2) a complete int/avg pair of a direction whose slots the flag merges
        complete = [(x, y) for (x, y) in sorted(dirs)
                    if {f"{x}_to_{y}_int", f"{x}_to_{y}_avg"} <= set(names)]
        ctx.check("R7", bool(complete), mod, q, accs[0][1],
                  f"while self.{flag} is true the int and avg variants of {sorted('_to_'.join(d) for d in dirs)} share one cache slot, so "
                  f"the flag may only be true if an int/avg pair of one of these directions agrees (both all-ones); it is decided "
                  f"from {names}, which contains no such pair - a projection and the transpose-sibling of its twin "
                  f"(e.g. mortar_to_{side}_int with {side}_to_mortar_avg) carry the same entries, so the other kind is never "
                  f"looked at and non-conforming interfaces with a finer mortar grid pass as conforming",
                  construct=f"{flag} decided from {names}: int/avg pair", facts={"projections": names, "merged": sorted(dirs)})
        # (3) every listed interface is examined and the flag can only be lowered
        recvs = {r for _, _, r in accs}
        loops_ok = True
        for _, c, r in accs:
            binders = [p for p, _ in f.enclosing(c, (ast.For,)) if r in {t.id for t in assigned_targets(p) if isinstance(t, ast.Name)}]
            comp = [g for p, _ in f.enclosing(c, (ast.ListComp, ast.GeneratorExp, ast.SetComp)) for g in p.generators
                    if r in names_in(g.target)]
            its = [b.iter for b in binders] + [g.iter for g in comp]
            if not its or not all(_list_order(i, iparams[2] if len(iparams) > 2 else "interfaces") is not None
                                  or u(i) == "self._interfaces" for i in its[:1]):
                loops_ok = False
        ok = loops_ok and not raised_again and (init_true or local is None)
        ctx.check("R7", ok, mod, q, stores[0],
                  f"self.{flag} must start true, be examined for every listed interface and only ever be lowered",
                  construct=f"{flag}: all interfaces, monotone", facts={"receivers": sorted(recvs), "lowered_at": len(lowered)})
        ctx.sample({"rule": "R7", "flag": flag, "decided_from": names, "merges": sorted("_to_".join(d) for d in dirs)})



def run(ctx: Ctx) -> None:
    mod = ctx.repo.module(GO)
    mp = mod.cls("MortarProjections")
    meths = methods(mp)
    _r1_r2(ctx, mod, meths)
    _r3(ctx, mod, meths)
    _r4(ctx, mod)
    _r5(ctx, mod)
    _r6(ctx, mod)
    _r7(ctx, mod, meths)
    if ctx.tier == "thorough":
        # every other user of the builders must pass a grid list and a dim (two positional arguments)
        n = 0
        for m in ctx.repo.modules("src/porepy"):
            for c in ast.walk(m.tree):
                if isinstance(c, ast.Call) and call_name(c) in ("_cell_projections", "_face_projections"):
                    n += 1
                    if len(c.args) != 2 or c.keywords:
                        ctx.note(f"sweep: {m.rel}:{c.lineno}: unusual call {u(c)}")
        ctx.note(f"sweep: {n} call sites of _cell_projections/_face_projections")


# ---------------------------------------------------------------------------------------

def _m(name, old, new, rule, control=False, count=1, file=GO):
    return dict(name=name, file=file, old=old, new=new, rule=rule, control=control, count=count)


MUTANTS = [
    # method table
    _m("avg-method-requests-int", 'mat = self._construct_projection("mortar_to_primary_avg", False, True, name)',
       'mat = self._construct_projection("mortar_to_primary_int", False, True, name)', "R1", control=True),
    _m("secondary-int-requests-avg", 'self._construct_projection("secondary_to_mortar_int", True, False, name)',
       'self._construct_projection("secondary_to_mortar_avg", True, False, name)', "R1"),
    _m("secondary-method-flags-primary", 'self._construct_projection("mortar_to_secondary_int", False, False, name)',
       'self._construct_projection("mortar_to_secondary_int", False, True, name)', "R1"),
    _m("to-mortar-flag-flipped", 'self._construct_projection("primary_to_mortar_avg", True, True, name)',
       'self._construct_projection("primary_to_mortar_avg", False, True, name)', "R1"),
    # cache slots
    _m("avg-fills-int-slot", "        else:\n            self._mortar_to_primary_avg = mat\n",
       "        else:\n            self._mortar_to_primary_int = mat\n", "R2"),
    _m("int-returns-avg-slot", "            return self._secondary_to_mortar_int\n",
       "            return self._secondary_to_mortar_avg\n", "R2"),
    _m("conforming-slot-of-other-direction",
       "        if self._is_conforming_primary and self._mortar_to_primary is not None:\n            return self._mortar_to_primary\n"
       "        elif (\n            not self._is_conforming_primary and self._mortar_to_primary_int is not None",
       "        if self._is_conforming_primary and self._primary_to_mortar is not None:\n            return self._primary_to_mortar\n"
       "        elif (\n            not self._is_conforming_primary and self._mortar_to_primary_int is not None", "R2"),
    _m("secondary-method-consults-primary-flag",
       "        if self._is_conforming_secondary:\n            self._secondary_to_mortar = mat\n        else:\n            self._secondary_to_mortar_avg = mat",
       "        if self._is_conforming_primary:\n            self._secondary_to_mortar = mat\n        else:\n            self._secondary_to_mortar_avg = mat", "R2"),
    # assembly
    _m("secondary-arm-takes-primary", "                _, sd = self._mdg.interface_to_subdomain_pair(intf)",
       "                sd, _ = self._mdg.interface_to_subdomain_pair(intf)", "R3"),
    _m("from-mortar-drops-dim", "loc_mat = projections[sd] @ getattr(intf, proj_func)(self.dim)",
       "loc_mat = projections[sd] @ getattr(intf, proj_func)()", "R3"),
    _m("to-mortar-forgets-transpose", "getattr(intf, proj_func)(self.dim) @ projections[sd].T",
       "getattr(intf, proj_func)(self.dim) @ projections[sd]", "R3"),
    _m("unlisted-subdomain-emits-no-block",
       "                proj_mats.append(pp.matrix_operations.optimized_compressed_storage(mat))\n", "                pass\n", "R3"),
    _m("empty-block-ignores-dim", "mat = sps.dia_matrix((intf.num_cells * self.dim, non_mortar_size))",
       "mat = sps.dia_matrix((intf.num_cells, non_mortar_size))", "R3"),
    _m("empty-shortcut-transposed", "return SparseArray(sps.csr_matrix((0, non_mortar_size)), name=name)",
       "return SparseArray(sps.csr_matrix((non_mortar_size, 0)), name=name)", "R3"),
    _m("stacking-swapped", "            return self._bmat([[m] for m in proj_mats], name=name)\n        else:\n            return self._bmat([proj_mats], name=name)",
       "            return self._bmat([proj_mats], name=name)\n        else:\n            return self._bmat([[m] for m in proj_mats], name=name)", "R3"),
    _m("projections-for-scalars-only", "projections = _cell_projections(self._subdomains, self.dim)",
       "projections = _cell_projections(self._subdomains, 1)", "R3"),
    _m("interfaces-sorted", "        for intf in self._interfaces:\n            # Fetch relevant subdomains.",
       "        for intf in sorted(self._interfaces, key=lambda i: i.id):\n            # Fetch relevant subdomains.", "R3"),
    # restriction / prolongation
    _m("restriction-iterates-all-subdomains", "[[self._cell_projections[sd].T] for sd in subdomains]",
       "[[self._cell_projections[sd].T] for sd in self._all_subdomains]", "R4"),
    _m("face-prolongation-sorted", "sps.bmat([[self._face_projections[sd] for sd in subdomains]]).tocsc()",
       "sps.bmat([[self._face_projections[sd] for sd in sorted(subdomains, key=lambda g: g.id)]]).tocsc()", "R4"),
    _m("face-restriction-uses-cell-maps", "[[self._face_projections[sd].T] for sd in subdomains]",
       "[[self._cell_projections[sd].T] for sd in subdomains]", "R4"),
    _m("cell-empty-uses-face-total", "mat = sps.csc_matrix((self._tot_num_cells * self.dim, 0))",
       "mat = sps.csc_matrix((self._tot_num_faces * self.dim, 0))", "R4"),
    _m("face-empty-ignores-dim", "mat = sps.csr_matrix((0, self._tot_num_faces * self.dim))",
       "mat = sps.csr_matrix((0, self._tot_num_faces))", "R4"),
    _m("tot-num-cells-counts-faces", "self._tot_num_cells: int = sum([sd.num_cells for sd in subdomains])",
       "self._tot_num_cells: int = sum([sd.num_faces for sd in subdomains])", "R4"),
    _m("lazy-build-with-wrong-builder",
       "            # Construct and store projection matrices for faces.\n            self._face_projections = _face_projections(self._all_subdomains, self.dim)",
       "            # Construct and store projection matrices for faces.\n            self._face_projections = _cell_projections(self._all_subdomains, self.dim)", "R4"),
    # builders
    _m("cell-offset-ignores-dim", "        cell_offset = cell_ind[-1] + 1\n", "        cell_offset = cell_offset + sd.num_cells\n",
       "R5", control=True),
    _m("cell-offset-overlaps", "        cell_offset = cell_ind[-1] + 1\n", "        cell_offset = cell_ind[-1]\n", "R5"),
    dict(name="cell-offset-advanced-before-use", rule="R5", control=False, edits=[
        dict(file=GO, old="        cell_offset = cell_ind[-1] + 1\n", new="", count=1),
        dict(file=GO, old="    for sd in subdomains:\n        cell_ind = cell_offset + pp.array_operations.expand_indices_nd(\n",
             new="    for sd in subdomains:\n        cell_offset += sd.num_cells * dim\n"
                 "        cell_ind = cell_offset + pp.array_operations.expand_indices_nd(\n", count=1)]),
    _m("builders-sort-grids", "    cell_offset = 0\n\n    for sd in subdomains:\n", "    cell_offset = 0\n\n    for sd in sorted(subdomains, key=lambda g: g.id):\n", "R5"),
    _m("face-builder-counts-cells", "        face_sz = sd.num_faces * dim\n", "        face_sz = sd.num_cells * dim\n", "R5"),
    _m("cell-height-ignores-dim", "    tot_num_cells = np.sum([sd.num_cells for sd in subdomains]) * dim\n    cell_offset = 0",
       "    tot_num_cells = np.sum([sd.num_cells for sd in subdomains])\n    cell_offset = 0", "R5"),
    # conformity flags
    _m("seed-conformity-check-wrong-sibling", "                intf.mortar_to_secondary_avg(),\n            ]:",
       "                intf.secondary_to_mortar_avg(),\n            ]:", "R7"),
    _m("conformity-primary-checks-int-only", "for proj in [intf.mortar_to_primary_int(), intf.mortar_to_primary_avg()]:",
       "for proj in [intf.mortar_to_primary_int()]:", "R7"),
    _m("conformity-secondary-decided-from-primary",
       "                intf.mortar_to_secondary_int(),\n                intf.mortar_to_secondary_avg(),\n",
       "                intf.mortar_to_primary_int(),\n                intf.mortar_to_primary_avg(),\n", "R7"),
    _m("conformity-flag-reset-per-interface", "        for intf in interfaces:\n            # Check the data of projections",
       "        for intf in interfaces:\n            is_conforming_secondary = True\n            # Check the data of projections", "R7"),
    # boundary projection
    _m("boundary-projection-ignores-dim", "mat_loc = bg.projection(dim)", "mat_loc = bg.projection()", "R6"),
    _m("boundary-to-subdomain-not-transposed", "            self._projection.transpose().tocsc(),\n", "            self._projection.tocsc(),\n", "R6"),
    _m("boundary-skips-0d-block", "                mat_loc = sps.csr_matrix((0, tot_num_faces))\n            mat.append(mat_loc)",
       "                continue\n            mat.append(mat_loc)", "R6"),
]
