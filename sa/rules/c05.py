"""C05 - DOF layout of EquationSystem: coherence of the four parallel state attributes
(_variables, _variable_dof_type, _variable_numbers, _variable_num_dofs), the block order
produced by _cluster_dofs_gridwise, and the way every reader derives offsets from it.

R1 writers   every write to the state outside the three layout primitives is followed, on every
             normally-returning path, by a call of <same receiver>._cluster_dofs_gridwise();
             __init__ only creates empty containers; _append_dofs appends one block in lock-step;
             update_variable_num_dofs only overwrites one size slot addressed through the number map.
R2 order     _cluster_dofs_gridwise: subdomains then interfaces (outermost), variables in creation
             order (inner), old size fetched through the old number of the same id, new number ==
             position of the appended size, both attributes replaced from the lock-step pair; SubSystem copies
             variables in the parent's creation order.
R3 readers   dofs_of / identify_dof / projection_to / get_variable_values / set_variable_values /
             num_dofs derive offsets only from (0, cumsum(_variable_num_dofs)) indexed through
             _variable_numbers, or from iteration over _variable_numbers (block order).
R4 sizes     the two sibling block-size formulas pair num_<entity> with the multiplicity of the same
             entity; faces/nodes only for subdomains.
"""
from __future__ import annotations

import ast
from typing import Iterator, Optional

from ..core import cfg as cfgmod
from ..core.astutil import (u, walk_local, call_name, kwarg, methods, names_in, parent_map, subst,
                            body_nodoc, inline_locals, enclosing_stmt)
from ..core.loader import AnchorError, Undecided
from ..core.report import Ctx

ES = "src/porepy/numerics/ad/equation_system.py"
CLS = "EquationSystem"
STATE = ("_variables", "_variable_dof_type", "_variable_numbers", "_variable_num_dofs")
SPECIFIC = ("_variable_dof_type", "_variable_numbers", "_variable_num_dofs")  # names unique to this class
PRIMITIVES = ("_cluster_dofs_gridwise", "_append_dofs", "update_variable_num_dofs")
RECLUSTER = "_cluster_dofs_gridwise"
# method names that mutate a dict / list / ndarray receiver in place
MUTATORS = {"update", "pop", "popitem", "clear", "setdefault", "append", "extend", "insert", "remove",
            "sort", "reverse", "fill", "resize", "put", "itemset", "__setitem__", "__delitem__"}
ENTITIES = ("cells", "faces", "nodes")

META = {
    "explanation": (
        "Static coherence analysis of EquationSystem's DOF layout. Decided: (R1) on the statement CFG of every "
        "method, each write to _variables/_variable_dof_type/_variable_numbers/_variable_num_dofs (subscript store, "
        "del, in-place mutator call, attribute rebinding, or a call of _append_dofs) outside the three layout "
        "primitives is post-dominated by <receiver>._cluster_dofs_gridwise() both towards the normal exits and towards every "
        "explicit `raise` reachable after the write (an exception raised while validating a later item must not leave a live "
        "object with stale block sizes); a call of a MixedDimensionalGrid accessor that subscripts the container with its argument "
        "(read off md_grid.py: subdomain_data, interface_data, ...) counts as such a raise when its key is a grid chosen by the "
        "caller (parameter / loop over a parameter, not a loop over mdg.subdomains()/interfaces()), unless a `finally` re-clusters; __init__ creates empty "
        "containers; _append_dofs numbers the new block len(_variable_numbers) (read before the insertion) and "
        "appends its size at the END of _variable_num_dofs; every _append_dofs call is dominated by the write of "
        "_variable_dof_type[<same variable>.id]. (R2) _cluster_dofs_gridwise iterates mdg.subdomains() then "
        "mdg.interfaces() as outermost loops, _variables (creation order) inside, filters on variable.domain == "
        "grid, reads the OLD size through the OLD number of the same id, gives the block the number equal to the "
        "position of the size just appended (counter initialised 0, incremented once per block after use, never "
        "reset), and finally replaces both attributes by the lock-step pair; SubSystem hands variables to the new system "
        "while iterating this system's variables (creation order is inherited). (R3) readers: offsets are "
        "hstack((0, cumsum(_variable_num_dofs))) indexed [n], [n+1] with n = _variable_numbers[var.id]; identify_dof "
        "is argmax(offsets > dof) - 1; projection_to sorts the column indices and builds (arange, indices) with "
        "shape (n, num_dofs); get/set_variable_values iterate _variable_numbers (whose insertion order R2 makes the "
        "block order), set_variable_values sizes each slice through the paired number, advances the cursor after "
        "every written block, and every requested variable reaches set_solution_values on every path through the loop body "
        "(empty blocks included); index-space typing: a block number (argmax-1, _variable_numbers[..]) may only subscript "
        "block-ordered containers (offsets, _variable_num_dofs), never self.variables/_variables (creation order). (R4) block-size formulas pair num_X with get('X'). (R5) in ad_utils.set_solution_values "
        "the array stored in a slot that is later accumulated in place (+=) must be created with a floating dtype (or the "
        "accumulation must be out of place), otherwise the first write fixes the caller's dtype and additive float writes onto an "
        "integer first write fail. NOT decided: that the resulting "
        "index sets partition 0..num_dofs-1 for a concrete history (the runtime consequence), that mdg.subdomains() "
        "/interfaces() return a stable sorted order (C24), values stored by ad_utils (C08)."),
    "rule_text": ("one obligation per (state write site | _append_dofs call | structural clause of "
                  "_cluster_dofs_gridwise per grid loop | reader clause | entity/multiplicity product)"),
    "trusted_base": ["python ast", "sa.core (loader, astutil, cfg: statement CFG + post-dominators via networkx)",
                     "dict preserves insertion order (language guarantee since 3.7)",
                     "numpy: cumsum/hstack/argmax/arange/sort semantics"],
    "assumptions": ["only explicit `raise` statements are modelled as exceptional exits (implicit KeyError/IndexError are not)",
                    "mdg.subdomains()/interfaces() without arguments return every grid once in a fixed order (C24)",
                    "no code outside EquationSystem writes the four attributes (swept in the thorough tier)",
                    "Variable.id is unique per variable"],
    "accepted_forms": ["grid loops: two loops, or one loop over subdomains()+interfaces() (concatenation, chain, [*a, *b], a local list built by = / += / extend, one private helper returning it)",
                       "filters: `if sel:` block or `if not sel: continue` guard; temporaries introduced or inlined at any enclosing block level; keyword arguments",
                       "offsets array built inline or returned by one private zero-argument helper on self; argmax(offsets > dof)-1 or searchsorted(offsets, dof, side='right')-1",
                       "id lookup by comprehension or by a for loop over _variable_numbers.items(); value gathering by loop+append or list comprehension",
                       "dict insertion by subscript store or update({k: v}); counter or len(<sizes>) numbering; block-size formula inline or in one shared private helper"],
    "technique": "CFG post-dominance/dominance for writer discipline + shape/dataflow matching of the renumbering loop and of each reader's offset derivation",
}
MIN_INSTANCES = {"R1": 16, "R2": 10, "R3": 20, "R4": 14, "R5": 1}


# ----------------------------------------------------------------------------------------------
# small helpers
# ----------------------------------------------------------------------------------------------

def _state_attr(e: ast.AST) -> Optional[tuple[str, str]]:
    """(receiver text, attr) if e is `<recv>.<state attr>` possibly under subscripts."""
    while isinstance(e, ast.Subscript):
        e = e.value
    if isinstance(e, ast.Attribute) and e.attr in STATE:
        return u(e.value), e.attr
    return None


def _targets(stmt: ast.stmt) -> list[ast.expr]:
    out: list[ast.expr] = []

    def flat(t):
        if isinstance(t, (ast.Tuple, ast.List)):
            for x in t.elts:
                flat(x)
        elif isinstance(t, ast.Starred):
            flat(t.value)
        else:
            out.append(t)

    if isinstance(stmt, ast.Assign):
        for t in stmt.targets:
            flat(t)
    elif isinstance(stmt, (ast.AugAssign, ast.AnnAssign)):
        if not (isinstance(stmt, ast.AnnAssign) and stmt.value is None):
            flat(stmt.target)
    elif isinstance(stmt, ast.Delete):
        for t in stmt.targets:
            flat(t)
    elif isinstance(stmt, (ast.For, ast.AsyncFor)):
        flat(stmt.target)
    return out


def state_writes(fn: ast.AST) -> list[tuple[ast.stmt, str, str, str]]:
    """All (statement, receiver, attr, how) that modify one of the four state attributes."""
    pm = parent_map(fn)
    out = []
    for n in walk_local(fn):
        if isinstance(n, ast.stmt) and n is not fn:
            for t in _targets(n):
                sa = _state_attr(t)
                if sa:
                    how = "rebind" if isinstance(t, ast.Attribute) else (
                        "del" if isinstance(n, ast.Delete) else "store")
                    out.append((n, sa[0], sa[1], how))
        if isinstance(n, ast.Call) and isinstance(n.func, ast.Attribute):
            if n.func.attr in MUTATORS:
                sa = _state_attr(n.func.value)
                if sa:
                    out.append((enclosing_stmt(pm, n), sa[0], sa[1], f".{n.func.attr}()"))
            elif n.func.attr == "_append_dofs":
                out.append((enclosing_stmt(pm, n), u(n.func.value), "_variable_numbers+_variable_num_dofs",
                            "._append_dofs()"))
    return out


def _recluster_calls(fn: ast.AST) -> list[tuple[ast.stmt, str]]:
    pm = parent_map(fn)
    out = []
    for n in walk_local(fn):
        if isinstance(n, ast.Call) and isinstance(n.func, ast.Attribute) and n.func.attr == RECLUSTER:
            out.append((enclosing_stmt(pm, n), u(n.func.value)))
    return out


def _is_self_attr(e: ast.AST, attr: str) -> bool:
    return isinstance(e, ast.Attribute) and e.attr == attr and isinstance(e.value, ast.Name) and e.value.id == "self"


def _unwrap(e: ast.expr) -> ast.expr:
    """Strip value-preserving wrappers: int(x), np.asarray(x), list(x)."""
    while isinstance(e, ast.Call) and call_name(e) in ("int", "asarray", "list", "tuple") and len(e.args) == 1 \
            and not e.keywords:
        e = e.args[0]
    return e


def _block_envs(block: list[ast.stmt], env0: Optional[dict] = None) -> Iterator[tuple[int, ast.stmt, dict]]:
    """Walk a statement list; yield (index, stmt, env) where env maps temporaries assigned earlier
    in the same block (plain `name = expr`) to their (already substituted) right-hand sides."""
    env: dict[str, ast.AST] = dict(env0 or {})
    for i, s in enumerate(block):
        yield i, s, dict(env)
        tgt = None
        if isinstance(s, ast.Assign) and len(s.targets) == 1 and isinstance(s.targets[0], ast.Name):
            tgt, val = s.targets[0].id, s.value
        elif isinstance(s, ast.AnnAssign) and isinstance(s.target, ast.Name) and s.value is not None:
            tgt, val = s.target.id, s.value
        if tgt is not None:
            if tgt in {n.id for n in ast.walk(val) if isinstance(n, ast.Name)} and tgt not in env:
                env.pop(tgt, None)  # self-referential re-binding of a non-temporary
            else:
                env[tgt] = subst(val, env)
        else:
            # any other statement (incl. compound ones) invalidates the names it stores
            for n in ast.walk(s):
                if isinstance(n, ast.Name) and isinstance(n.ctx, (ast.Store, ast.Del)):
                    env.pop(n.id, None)


def _env_chain(pm: dict, stmt: ast.AST, root: ast.AST) -> dict:
    """Temporaries visible at `stmt`: plain assignments that precede it in its own block and in every enclosing block
    up to (not including) `root`."""
    chain = []
    cur = stmt
    while cur is not root and cur in pm:
        if isinstance(cur, ast.stmt):
            chain.append(cur)
        cur = pm[cur]
    env: dict = {}
    for node in reversed(chain):
        try:
            block = _block_of(pm, node)
        except Undecided:
            continue
        for _, s2, e2 in _block_envs(block, env):
            if s2 is node:
                env = e2
                break
    return env


def _empty_container(e: Optional[ast.expr], kind: str) -> bool:
    if e is None:
        return False
    if kind == "dict":
        return (isinstance(e, ast.Dict) and not e.keys) or (isinstance(e, ast.Call) and u(e.func) == "dict" and not e.args and not e.keywords)
    if kind == "list":
        return (isinstance(e, ast.List) and not e.elts) or (isinstance(e, ast.Call) and u(e.func) == "list" and not e.args and not e.keywords)
    if kind == "array":
        return (isinstance(e, ast.Call) and call_name(e) in ("array", "empty", "zeros") and e.args
                and ((isinstance(e.args[0], (ast.List, ast.Tuple)) and not e.args[0].elts)
                     or (isinstance(e.args[0], ast.Constant) and e.args[0].value == 0)))
    return False


def _top_assign(fn: ast.FunctionDef, name: str) -> list[tuple[int, ast.stmt, Optional[ast.expr]]]:
    out = []
    for i, s in enumerate(body_nodoc(fn)):
        if isinstance(s, ast.Assign) and any(isinstance(t, ast.Name) and t.id == name for t in s.targets):
            out.append((i, s, s.value))
        elif isinstance(s, ast.AnnAssign) and isinstance(s.target, ast.Name) and s.target.id == name:
            out.append((i, s, s.value))
    return out


def _all_name_stores(fn: ast.AST, name: str) -> list[ast.stmt]:
    out = []
    for s in walk_local(fn):
        if isinstance(s, ast.stmt) and s is not fn:
            for t in _targets(s):
                if isinstance(t, ast.Name) and t.id == name:
                    out.append(s)
    return out


# ----------------------------------------------------------------------------------------------
# R1 writers
# ----------------------------------------------------------------------------------------------

MDGRID = "src/porepy/grids/md_grid.py"
_RAISING_ACCESSORS: set = set()


def _raising_md_accessors(repo) -> set[str]:
    """Methods of MixedDimensionalGrid that raise KeyError for a grid that is not in the md-grid: their body subscripts a
    private dict of the container with a parameter, unguarded (read off the source, no hand-written table)."""
    out: set[str] = set()
    mod = repo.module(MDGRID)
    cls = mod.cls("MixedDimensionalGrid")
    for name, m in methods(cls).items():
        ps = [a.arg for a in m.args.args if a.arg != "self"]
        if not ps or name.startswith("_"):
            continue
        in_try = set()
        for t in walk_local(m):
            if isinstance(t, ast.Try) and any("KeyError" in u(h.type) for h in t.handlers if h.type is not None):
                in_try |= {id(x) for b in t.body for x in ast.walk(b)}
        for n in walk_local(m):
            if isinstance(n, ast.Subscript) and isinstance(n.ctx, ast.Load) and isinstance(n.value, ast.Attribute) \
                    and isinstance(n.value.value, ast.Name) and n.value.value.id == "self" and n.value.attr.startswith("_") \
                    and isinstance(n.slice, ast.Name) and n.slice.id in ps and id(n) not in in_try:
                out.add(name)
    return out


def _implicit_raise_nodes(g: cfgmod.CFG, fn: ast.FunctionDef, recluster_recv: set[str]) -> list[tuple[int, ast.Call]]:
    """CFG nodes holding a call `<x>.mdg.<raising accessor>(k)` where k is a grid the CALLER chose (a parameter, or the
    variable of a loop that does not iterate the md-grid's own listing).  Nodes inside a try whose `finally` re-clusters are
    exempt (the finally block runs before the exception propagates)."""
    if not _RAISING_ACCESSORS:
        return []
    pm = parent_map(fn)
    params = {a.arg for a in fn.args.args + fn.args.kwonlyargs}
    out = []
    for n, st in g.stmt.items():
        if isinstance(st, (ast.FunctionDef, ast.AsyncFunctionDef, ast.ClassDef)):
            continue
        exprs = [st.test] if isinstance(st, (ast.If, ast.While)) else ([st.iter] if isinstance(st, ast.For) else (
            [i.context_expr for i in st.items] if isinstance(st, ast.With) else [st]))
        for e in exprs:
            for c in ast.walk(e):
                if not (isinstance(c, ast.Call) and isinstance(c.func, ast.Attribute) and c.func.attr in _RAISING_ACCESSORS
                        and u(c.func.value).split(".")[-1] == "mdg" and (c.args or c.keywords)):
                    continue
                key = c.args[0] if c.args else c.keywords[0].value
                if not isinstance(key, ast.Name):
                    continue
                foreign = key.id in params
                cur: ast.AST = st
                protected = False
                while cur in pm:
                    cur = pm[cur]
                    if isinstance(cur, ast.For) and key.id in {x.id for x in ast.walk(cur.target) if isinstance(x, ast.Name)}:
                        foreign = _grid_source(cur.iter, fn) is None
                    if isinstance(cur, ast.Try) and cur.finalbody and any(
                            isinstance(x, ast.Call) and isinstance(x.func, ast.Attribute) and x.func.attr == RECLUSTER
                            and u(x.func.value) in recluster_recv for b in cur.finalbody for x in ast.walk(b)):
                        protected = True
                if foreign and not protected:
                    out.append((n, c))
    return out


def _check_writer(ctx: Ctx, rel: str, qual: str, fn: ast.FunctionDef) -> int:
    writes = state_writes(fn)
    if not writes:
        return 0
    g = cfgmod.build(fn)
    implicit = _implicit_raise_nodes(g, fn, {r for _, r, _, _ in writes})
    for n_, _c in implicit:
        g.g.add_edge(n_, cfgmod.RAISE, cond=None)
    rec = _recluster_calls(fn)
    for stmt, recv, attr, how in writes:
        wn = g.node_for(_cfg_stmt(g, fn, stmt))
        ok = False
        for cst, crecv in rec:
            if crecv != recv:
                continue
            cn = g.node_for(_cfg_stmt(g, fn, cst))
            if cn != wn and g.postdominates(cn, wn):
                ok = True
                break
        # the same on paths that leave through an explicit `raise` (e.g. the validation of the NEXT loop item):
        # the object stays alive after the exception, so the layout must already be re-clustered when it is raised
        ok_raise = True
        if ok and g.reachable(wn, cfgmod.RAISE):
            ok_raise = any(crecv == recv and g.node_for(_cfg_stmt(g, fn, cst)) != wn
                           and g.postdominates(g.node_for(_cfg_stmt(g, fn, cst)), wn, exit_node=cfgmod.RAISE)
                           for cst, crecv in rec)
        msg = (f"write to {recv}.{attr} ({how}) is not followed on every normally-returning path by "
               f"{recv}.{RECLUSTER}(): block numbers/sizes are left stale or not grid-wise ordered")
        via = [c_ for n_, c_ in implicit if g.reachable(wn, n_) or n_ == wn]
        if ok and not ok_raise and via and not any(
                isinstance(x, ast.Raise) and g.reachable(wn, g.node_for(x)) for x in walk_local(fn) if isinstance(x, ast.Raise) and x in g.stmt.values()):
            msg = (f"after the write to {recv}.{attr} ({how}) the lookup {u(via[0])} can raise KeyError (grid chosen by the caller, "
                   f"not in the md-grid) before {recv}.{RECLUSTER}() has run: the variables registered for earlier grids stay at the "
                   f"end of the block order (after interface variables) in a live object; look all grids up before mutating, or "
                   f"re-cluster in a finally clause")
        elif ok and not ok_raise:
            msg = (f"after the write to {recv}.{attr} ({how}) an explicit `raise` can be reached before {recv}.{RECLUSTER}() "
                   f"has run (e.g. the validation of a later loop item fails): the exception leaves _variable_num_dofs / "
                   f"_variable_numbers stale in a live object; re-cluster inside the same iteration or validate before mutating")
        mode = "" if ok and ok_raise else (" [no re-cluster before normal return]" if not ok else (
            " [no re-cluster before an implicit KeyError of an md-grid lookup]" if "can raise KeyError" in msg
            else " [no re-cluster before an explicit raise]"))
        ctx.check("R1", ok and ok_raise, rel, qual, stmt, msg,
                  construct=f"{how} {recv}.{attr} :: {u(stmt)[:120]}{mode}",
                  desc=f"write to {recv}.{attr} ({how}) is post-dominated by {recv}.{RECLUSTER}() on return and on raise paths",
                  facts={"receiver": recv, "attr": attr, "how": how, "normal_paths": ok, "raise_paths": ok_raise,
                         "recluster_calls": [f"{r}.{RECLUSTER}()" for _, r in rec]})
    return len(writes)


def _cfg_stmt(g: cfgmod.CFG, fn: ast.AST, stmt: ast.stmt) -> ast.AST:
    """The statement itself if it is a CFG node, else the innermost enclosing statement that is."""
    ids = {id(s) for s in g.stmt.values()}
    if id(stmt) in ids:
        return stmt
    pm = parent_map(fn)
    cur: ast.AST = stmt
    while cur in pm:
        cur = pm[cur]
        if id(cur) in ids:
            return cur
    raise Undecided(f"statement not in CFG: {u(stmt)[:60]}")


def _check_init(ctx: Ctx, rel: str, fn: ast.FunctionDef) -> None:
    kinds = {"_variables": "dict", "_variable_dof_type": "dict", "_variable_numbers": "dict",
             "_variable_num_dofs": "array"}
    seen = set()
    for stmt, recv, attr, how in state_writes(fn):
        val = getattr(stmt, "value", None)
        ok = recv == "self" and how == "rebind" and attr in kinds and _empty_container(val, kinds[attr])
        seen.add(attr)
        ctx.check("R1", ok, rel, f"{CLS}.__init__", stmt,
                  f"__init__ must create {attr} as an empty {kinds.get(attr, 'container')} (the four containers start coherent)",
                  construct=f"init {attr} = {u(val) if val is not None else None}")
    if seen != set(kinds):
        raise AnchorError(f"{CLS}.__init__ does not initialise {sorted(set(kinds) - seen)}")


def _check_append_dofs(ctx: Ctx, rel: str, fn: ast.FunctionDef) -> None:
    q = f"{CLS}._append_dofs"
    writes = state_writes(fn)
    num_w = [w for w in writes if w[2] == "_variable_numbers"]
    size_w = [w for w in writes if w[2] == "_variable_num_dofs"]
    other = [w for w in writes if w[2] not in ("_variable_numbers", "_variable_num_dofs")]
    if len(num_w) != 1 or len(size_w) != 1 or other:
        raise Undecided(f"{q}: expected exactly one write to _variable_numbers and one to _variable_num_dofs, "
                        f"found {[(w[2], w[3]) for w in writes]}")
    g = cfgmod.build(fn)
    # (a) the new block number is len(self._variable_numbers) read BEFORE the insertion
    stmt = num_w[0][0]
    key, val = _dict_insert(stmt, "_variable_numbers")
    if key is None:
        raise Undecided(f"{q}: unrecognised insertion into _variable_numbers: {u(stmt)[:80]}")
    params = [a.arg for a in fn.args.args]
    var = params[1] if len(params) > 1 else None
    ok_key = var is not None and u(key) == f"{var}.id"
    val_in = inline_locals(fn, val)
    ok_val = isinstance(val_in, ast.Call) and u(val_in.func) == "len" and len(val_in.args) == 1 and _is_self_attr(
        val_in.args[0], "_variable_numbers")
    if ok_val and isinstance(val, ast.Name):
        # the len() must be evaluated before the insertion
        defs = _all_name_stores(fn, val.id)
        ok_val = len(defs) == 1 and g.dominates(g.node_for(_cfg_stmt(g, fn, defs[0])), g.node_for(_cfg_stmt(g, fn, stmt))) \
            and defs[0] is not stmt
    ctx.check("R1", bool(ok_key and ok_val), rel, q, stmt,
              "_append_dofs must number the new block len(_variable_numbers) (taken before the insertion) under the "
              "key <variable>.id: the size is appended at that position of _variable_num_dofs",
              construct=f"_variable_numbers[{u(key)}] <- {u(val_in)}", facts={"key": u(key), "value": u(val_in)})
    # (b) the size goes to the END of _variable_num_dofs
    stmt = size_w[0][0]
    val = getattr(stmt, "value", None)
    ok = False
    shape = None
    if size_w[0][3] == "rebind" and isinstance(val, ast.Call) and call_name(val) in ("concatenate", "hstack", "append", "r_"):
        parts = None
        if call_name(val) == "append" and len(val.args) == 2:
            parts = list(val.args)
        elif val.args and isinstance(val.args[0], (ast.List, ast.Tuple)):
            parts = list(val.args[0].elts)
        if parts is not None and len(parts) == 2:
            shape = [u(p) for p in parts]
            ok = _is_self_attr(parts[0], "_variable_num_dofs") and not any(
                _is_self_attr(n, "_variable_num_dofs") for n in ast.walk(parts[1]))
            if not ok and not any(_is_self_attr(p, "_variable_num_dofs") for p in parts):
                raise Undecided(f"{q}: new _variable_num_dofs not built from the old one: {u(val)[:80]}")
    else:
        raise Undecided(f"{q}: unrecognised extension of _variable_num_dofs: {u(stmt)[:80]}")
    ctx.check("R1", ok, rel, q, stmt,
              "_append_dofs must append the new block size at the END of _variable_num_dofs (position == new block number)",
              construct=f"_variable_num_dofs <- concat{shape}", facts={"parts": shape})


def _dict_insert(stmt: ast.stmt, attr: str) -> tuple[Optional[ast.expr], Optional[ast.expr]]:
    """(key, value) of `X.attr[key] = value` or `X.attr.update({key: value})`."""
    if isinstance(stmt, ast.Assign) and len(stmt.targets) == 1 and isinstance(stmt.targets[0], ast.Subscript):
        t = stmt.targets[0]
        if isinstance(t.value, ast.Attribute) and t.value.attr == attr:
            return t.slice, stmt.value
    if isinstance(stmt, ast.Expr) and isinstance(stmt.value, ast.Call):
        c = stmt.value
        if isinstance(c.func, ast.Attribute) and c.func.attr == "update" and isinstance(c.func.value, ast.Attribute) \
                and c.func.value.attr == attr and len(c.args) == 1 and isinstance(c.args[0], ast.Dict) \
                and len(c.args[0].keys) == 1 and c.args[0].keys[0] is not None:
            return c.args[0].keys[0], c.args[0].values[0]
    return None, None


def _check_update_num_dofs(ctx: Ctx, rel: str, fn: ast.FunctionDef) -> None:
    q = f"{CLS}.update_variable_num_dofs"
    writes = state_writes(fn)
    if not writes:
        raise AnchorError(f"{q}: no state write found")
    for stmt, recv, attr, how in writes:
        ok = False
        idx = None
        if attr == "_variable_num_dofs" and how == "store" and isinstance(stmt, ast.Assign) and isinstance(
                stmt.targets[0], ast.Subscript):
            idx = stmt.targets[0].slice
            # the slot is addressed through the number map, keyed by the id the loop iterates
            loop_ids = _loop_id_exprs(fn)
            ok = (isinstance(idx, ast.Subscript) and _is_self_attr(idx.value, "_variable_numbers")
                  and u(idx.slice) in loop_ids)
        ctx.check("R1", ok, rel, q, stmt,
                  "update_variable_num_dofs may only overwrite the size slot _variable_num_dofs[_variable_numbers[id]] of the "
                  "variable it iterates (block order is untouched, so no re-clustering is needed)",
                  construct=f"{how} {attr}[{u(idx) if idx is not None else ''}]")


def _loop_id_exprs(fn: ast.AST) -> set[str]:
    """Texts denoting 'the id of the variable currently iterated' for loops over self._variables."""
    out = set()
    for n in walk_local(fn):
        if isinstance(n, (ast.For, ast.comprehension)):
            it, tg = n.iter, n.target
            base = it.func.value if isinstance(it, ast.Call) and isinstance(it.func, ast.Attribute) else it
            if isinstance(it, ast.Call) and isinstance(it.func, ast.Attribute) and it.func.attr == "items" \
                    and _is_self_attr(base, "_variables") and isinstance(tg, ast.Tuple) and len(tg.elts) == 2:
                out.add(u(tg.elts[0]))
                out.add(f"{u(tg.elts[1])}.id")
            elif isinstance(it, ast.Call) and isinstance(it.func, ast.Attribute) and it.func.attr == "values" \
                    and _is_self_attr(base, "_variables") and isinstance(tg, ast.Name):
                out.add(f"{tg.id}.id")
            elif (_is_self_attr(it, "_variables") or (isinstance(it, ast.Call) and isinstance(it.func, ast.Attribute)
                                                       and it.func.attr == "keys" and _is_self_attr(base, "_variables"))) \
                    and isinstance(tg, ast.Name):
                out.add(tg.id)
            elif _is_self_attr(it, "variables") and isinstance(tg, ast.Name):
                out.add(f"{tg.id}.id")
    return out


def _check_append_callers(ctx: Ctx, rel: str, qual: str, fn: ast.FunctionDef) -> int:
    pm = parent_map(fn)
    calls = [n for n in walk_local(fn) if isinstance(n, ast.Call) and isinstance(n.func, ast.Attribute)
             and n.func.attr == "_append_dofs"]
    if not calls:
        return 0
    g = cfgmod.build(fn)
    for c in calls:
        recv = u(c.func.value)
        if len(c.args) != 1 or not isinstance(c.args[0], ast.Name):
            raise Undecided(f"{qual}: _append_dofs called with a non-name argument")
        v = c.args[0].id
        cn = g.node_for(_cfg_stmt(g, fn, enclosing_stmt(pm, c)))
        ok = False
        for stmt, r, attr, how in state_writes(fn):
            if attr == "_variable_dof_type" and r == recv and how == "store":
                key, _ = _dict_insert(stmt, "_variable_dof_type")
                if key is not None and u(key) == f"{v}.id":
                    wn = g.node_for(_cfg_stmt(g, fn, stmt))
                    if wn != cn and g.dominates(wn, cn):
                        ok = True
        ctx.check("R1", ok, rel, qual, c,
                  f"{recv}._append_dofs({v}) reads {recv}._variable_dof_type[{v}.id]; the store of that entry must "
                  f"dominate the call",
                  construct=f"{recv}._append_dofs({v}) after {recv}._variable_dof_type[{v}.id] store")
    return len(calls)


def _check_inherited_order(ctx: Ctx, rel: str, meths: dict) -> None:
    """A method that registers EXISTING variables in another EquationSystem (SubSystem) must insert them while
    iterating this system's variables: the insertion order of _variables is the creation order that
    _cluster_dofs_gridwise uses inside each grid."""
    n = 0
    for name, fn in meths.items():
        pm = parent_map(fn)
        for stmt, recv, attr, how in state_writes(fn):
            if attr != "_variables" or how != "store" or recv == "self":
                continue
            n += 1
            loops = []
            cur: ast.AST = stmt
            while cur in pm and pm[cur] is not fn:
                cur = pm[cur]
                if isinstance(cur, (ast.For, ast.While)):
                    loops.append(cur)
            if len(loops) != 1 or not isinstance(loops[0], ast.For):
                raise Undecided(f"{CLS}.{name}: foreign _variables store is not inside a single for loop")
            it = loops[0].iter
            base = it.func.value if isinstance(it, ast.Call) and isinstance(it.func, ast.Attribute) and it.func.attr in ("values", "items") else it
            if _is_self_attr(base, "variables") or _is_self_attr(base, "_variables"):
                ok, why = True, "parent's creation order"
            else:
                kind, why = _order_source(fn, it)
                ok = False
                if kind == "block":
                    raise Undecided(f"{CLS}.{name}: variables copied in block order ({u(it)})")
            ctx.check("R2", ok, rel, f"{CLS}.{name}", loops[0],
                      f"variables handed to {recv} must be inserted in this system's creation order (iterate self.variables): {why}",
                      construct=f"{recv}._variables filled in `for ... in {u(it)}`",
                      desc=f"{recv}._variables is filled in the parent's creation order")
    if n == 0:
        raise AnchorError(f"{CLS}: no method registers variables in another EquationSystem (SubSystem anchor lost)")


# ----------------------------------------------------------------------------------------------
# R2 _cluster_dofs_gridwise
# ----------------------------------------------------------------------------------------------

_METHS: dict = {}   # methods of EquationSystem (set by run); used to follow ONE level of private helper calls on self


def _helper_return(e: ast.AST) -> Optional[ast.expr]:
    """If e is `self._helper()` (no arguments) and the helper's body is a single `return <expr>`, that expression."""
    if isinstance(e, ast.Call) and isinstance(e.func, ast.Attribute) and isinstance(e.func.value, ast.Name) and e.func.value.id == "self" \
            and not e.args and not e.keywords and e.func.attr in _METHS:
        body = body_nodoc(_METHS[e.func.attr])
        if len(body) == 1 and isinstance(body[0], ast.Return) and body[0].value is not None:
            return body[0].value
    return None


def _grid_source(e: ast.expr, fn: Optional[ast.AST] = None, depth: int = 0) -> Optional[list[str]]:
    """['sd'] / ['intf'] / concatenations; None if e is not an md-grid listing."""
    if isinstance(e, ast.Call) and isinstance(e.func, ast.Attribute) and e.func.attr in ("subdomains", "interfaces"):
        recv = u(e.func.value)
        if recv.split(".")[-1] != "mdg":
            return None
        if e.args or e.keywords:
            raise Undecided(f"grid listing with arguments (possibly a filtered/re-ordered list): {u(e)}")
        return ["sd" if e.func.attr == "subdomains" else "intf"]
    if isinstance(e, ast.BinOp) and isinstance(e.op, ast.Add):
        l, r = _grid_source(e.left, fn, depth), _grid_source(e.right, fn, depth)
        if l is not None and r is not None:
            return l + r
        return None
    if isinstance(e, ast.Call) and call_name(e) in ("list", "chain", "tuple") and e.args:
        parts = [_grid_source(a, fn, depth) for a in e.args]
        if all(p is not None for p in parts):
            return [x for p in parts for x in p]  # type: ignore[union-attr]
        return None
    if isinstance(e, (ast.List, ast.Tuple)) and e.elts and all(isinstance(x, ast.Starred) for x in e.elts):
        parts = [_grid_source(x.value, fn, depth) for x in e.elts]  # type: ignore[attr-defined]
        if all(p is not None for p in parts):
            return [x for p in parts for x in p]  # type: ignore[union-attr]
        return None
    h = _helper_return(e)
    if h is not None and depth < 1:
        return _grid_source(h, None, depth + 1)
    if isinstance(e, ast.Name) and fn is not None and depth < 2:
        # a local list: `x = <src>` possibly followed by `x += <src>` / `x.extend(<src>)` / `x = x + <src>`
        seq: list[str] = []
        seen = False
        for st in sorted([n for n in walk_local(fn) if isinstance(n, (ast.Assign, ast.AnnAssign, ast.AugAssign, ast.Expr))],
                         key=lambda n: (n.lineno, n.col_offset)):
            part = None
            if isinstance(st, (ast.Assign, ast.AnnAssign)) and st.value is not None:
                tg = st.targets[0] if isinstance(st, ast.Assign) else st.target
                if not (isinstance(tg, ast.Name) and tg.id == e.id):
                    continue
                v = st.value
                if isinstance(v, ast.BinOp) and isinstance(v.op, ast.Add) and u(v.left) == e.id and seen:
                    part = _grid_source(v.right, fn, depth + 1)
                    if part is None:
                        return None
                    seq += part
                    continue
                if (isinstance(v, ast.List) and not v.elts) or (isinstance(v, ast.Call) and u(v.func) == "list" and not v.args):
                    seq, seen = [], True
                    continue
                part = _grid_source(v, fn, depth + 1)
                if part is None:
                    return None
                seq, seen = list(part), True
            elif isinstance(st, ast.AugAssign) and isinstance(st.target, ast.Name) and st.target.id == e.id:
                if not isinstance(st.op, ast.Add) or not seen:
                    return None
                part = _grid_source(st.value, fn, depth + 1)
                if part is None:
                    return None
                seq += part
            elif isinstance(st, ast.Expr) and isinstance(st.value, ast.Call) and isinstance(st.value.func, ast.Attribute) \
                    and u(st.value.func.value) == e.id:
                if st.value.func.attr == "extend" and len(st.value.args) == 1 and seen:
                    part = _grid_source(st.value.args[0], fn, depth + 1)
                    if part is None:
                        return None
                    seq += part
                elif st.value.func.attr in ("sort", "reverse", "insert", "pop", "remove", "append"):
                    return None
        return seq if seen and seq else None
    return None


def _variables_iter(it: ast.expr, tg: ast.expr) -> Optional[tuple[set[str], str]]:
    """If `for tg in it` iterates self._variables in insertion order: (texts denoting the id, variable name)."""
    base = it.func.value if isinstance(it, ast.Call) and isinstance(it.func, ast.Attribute) else None
    if isinstance(it, ast.Call) and isinstance(it.func, ast.Attribute) and not it.args and _is_self_attr(base, "_variables"):
        if it.func.attr == "items" and isinstance(tg, ast.Tuple) and len(tg.elts) == 2 and all(
                isinstance(x, ast.Name) for x in tg.elts):
            return {tg.elts[0].id, f"{tg.elts[1].id}.id"}, tg.elts[1].id
        if it.func.attr == "values" and isinstance(tg, ast.Name):
            return {f"{tg.id}.id"}, tg.id
    if _is_self_attr(it, "variables") and isinstance(tg, ast.Name):
        return {f"{tg.id}.id"}, tg.id
    return None


def _check_cluster(ctx: Ctx, rel: str, fn: ast.FunctionDef) -> None:
    q = f"{CLS}.{RECLUSTER}"
    pm = parent_map(fn)
    top = body_nodoc(fn)
    grid_loops = []
    for n in walk_local(fn):
        if isinstance(n, ast.For):
            gs = _grid_source(n.iter, fn)
            if gs is not None:
                grid_loops.append((n, gs))
    grid_loops.sort(key=lambda t: (t[0].lineno, t[0].col_offset))
    if not grid_loops:
        raise AnchorError(f"{q}: no loop over mdg.subdomains()/mdg.interfaces() found")
    seq = [x for _, gs in grid_loops for x in gs]
    ctx.check("R2", seq == ["sd", "intf"], rel, q, grid_loops[0][0],
              f"block order must be all subdomains, then all interfaces, each listed once; the loops give {seq}",
              construct=f"grid source sequence {seq}", facts={"sequence": seq})
    ctx.sample({"rule": "R2", "grid_source_sequence": seq})

    L = D = C = None  # names of the new size list, the new number dict, the counter
    last_top_idx = -1
    for loop, gs in grid_loops:
        tag = "+".join(gs)
        # (1) outermost
        encl = []
        cur: ast.AST = loop
        while cur in pm and pm[cur] is not fn:
            cur = pm[cur]
            if isinstance(cur, (ast.For, ast.While)):
                encl.append(cur)
        if encl and not all(isinstance(e, ast.For) and _variables_iter(e.iter, e.target) for e in encl):
            raise Undecided(f"{q}: grid loop nested in an unrecognised loop")
        ctx.check("R2", not encl, rel, q, loop,
                  "the grid loop must be outermost: nested inside the loop over _variables the blocks come out "
                  "creation-major instead of grid-major",
                  construct=f"grid loop [{tag}] nesting depth {len(encl)}")
        if not encl:
            if cur not in top:
                raise Undecided(f"{q}: grid loop is not a top-level statement")
            last_top_idx = max(last_top_idx, top.index(cur))  # type: ignore[arg-type]
        if not isinstance(loop.target, ast.Name):
            raise Undecided(f"{q}: grid loop target is not a name")
        gname = loop.target.id
        # (2) inner loop over _variables (or, for the nested-wrong form, the enclosing one)
        inner = [n for n in walk_local(loop) if isinstance(n, ast.For) and n is not loop]
        if encl:
            vloop, vinfo = encl[0], _variables_iter(encl[0].iter, encl[0].target)
            eff_root: ast.AST = loop
        else:
            cands = [(n, _variables_iter(n.iter, n.target)) for n in inner]
            cands = [c for c in cands if c[1]]
            if len(cands) != 1 or len(inner) != 1:
                bad = [u(n.iter) for n in inner]
                if len(inner) == 1 and any(isinstance(x, ast.Attribute) and x.attr in ("_variable_numbers",)
                                           for x in ast.walk(inner[0].iter)):
                    ctx.check("R2", False, rel, q, inner[0],
                              "within a grid the blocks must follow creation order (_variables); iterating the old number "
                              "map keeps the previous (possibly unclustered) relative order", construct=f"inner loop over {bad[0]}")
                    continue
                raise Undecided(f"{q}: inner iteration of grid loop [{tag}] is not over self._variables: {bad}")
            vloop, vinfo = cands[0]
            eff_root = vloop
        ids, vname = vinfo  # type: ignore[misc]
        ids = set(ids)
        for s in vloop.body:  # local aliases of the id, e.g. `id_ = variable.id`
            if isinstance(s, ast.Assign) and len(s.targets) == 1 and isinstance(s.targets[0], ast.Name) and u(s.value) in ids \
                    and len(_all_name_stores(vloop, s.targets[0].id)) == 1:
                ids.add(s.targets[0].id)
        # (3) effects
        appends = [n for n in walk_local(eff_root) if isinstance(n, ast.Call) and isinstance(n.func, ast.Attribute)
                   and n.func.attr == "append" and isinstance(n.func.value, ast.Name)]
        inserts = []
        for s in walk_local(eff_root):
            if isinstance(s, ast.Expr) and isinstance(s.value, ast.Call) and isinstance(s.value.func, ast.Attribute) \
                    and s.value.func.attr == "update" and isinstance(s.value.func.value, ast.Name) \
                    and len(s.value.args) == 1 and isinstance(s.value.args[0], ast.Dict) and len(s.value.args[0].keys) == 1:
                inserts.append((s, s.value.func.value.id, s.value.args[0].keys[0], s.value.args[0].values[0]))
            elif isinstance(s, ast.Assign) and len(s.targets) == 1 and isinstance(s.targets[0], ast.Subscript) \
                    and isinstance(s.targets[0].value, ast.Name):
                inserts.append((s, s.targets[0].value.id, s.targets[0].slice, s.value))
        if len(appends) != 1 or len(inserts) != 1:
            raise Undecided(f"{q}: grid loop [{tag}]: expected one size append and one number insertion, found "
                            f"{len(appends)}/{len(inserts)}")
        app = appends[0]
        ins_stmt, dname, key, val = inserts[0]
        app_stmt = enclosing_stmt(pm, app)
        block = _block_of(pm, app_stmt)
        if _block_of(pm, ins_stmt) is not block:
            ctx.check("R2", False, rel, q, ins_stmt,
                      "size append and number insertion must happen under the same guard (lock-step)",
                      construct=f"[{tag}] lock-step blocks differ")
            continue
        lname = app.func.value.id  # type: ignore[union-attr]
        if L is None:
            L, D = lname, dname
        ctx.check("R2", (L, D) == (lname, dname), rel, q, app_stmt,
                  "both grid loops must fill the same pair of new containers",
                  construct=f"[{tag}] containers ({lname},{dname})")
        # guard: variable.domain == grid
        guard = _guard_of_block(pm, block, app_stmt, vloop)
        ok_guard = guard is not None and _is_domain_test(guard, vname, gname)
        if guard is not None and not ok_guard:
            gn = names_in(guard)
            if vname in gn and gname in gn:  # relates the variable to the grid in a way we do not know
                raise Undecided(f"{q}: unrecognised domain filter `{u(guard)}` in grid loop [{tag}]")
        ctx.check("R2", ok_guard, rel, q, guard if guard is not None else app_stmt,
                  f"a block is emitted for exactly the variables with {vname}.domain == {gname}",
                  construct=f"[{tag}] guard {u(guard) if guard is not None else None}")
        # old size through old number of the same id
        env_at = {id(app_stmt): _env_chain(pm, app_stmt, loop), id(ins_stmt): _env_chain(pm, ins_stmt, loop)}
        size_expr = subst(app.args[0], env_at[id(app_stmt)]) if app.args else None
        size_expr = _unwrap(size_expr) if size_expr is not None else None
        ok_size = False
        if isinstance(size_expr, ast.Subscript) and _is_self_attr(size_expr.value, "_variable_num_dofs"):
            ix = size_expr.slice
            ok_size = isinstance(ix, ast.Subscript) and _is_self_attr(ix.value, "_variable_numbers") and u(ix.slice) in ids
        elif size_expr is None or not any(_is_self_attr(n, "_variable_num_dofs") for n in ast.walk(size_expr)):
            raise Undecided(f"{q}: size appended in grid loop [{tag}] is not read from _variable_num_dofs: "
                            f"{u(size_expr) if size_expr is not None else None}")
        ctx.check("R2", ok_size, rel, q, app_stmt,
                  "the size of the re-numbered block must be the OLD size of the same variable: "
                  "_variable_num_dofs[_variable_numbers[<id>]] (old array indexed by old number)",
                  construct=f"[{tag}] size <- {u(size_expr)}", facts={"id_exprs": sorted(ids)})
        # new number == position of the size just appended
        key_ok = u(key) in ids
        val_s = subst(val, env_at[id(ins_stmt)])
        bi, ai = block.index(ins_stmt), block.index(app_stmt)
        incs = [s for s in block if isinstance(s, ast.AugAssign) and isinstance(s.target, ast.Name)]
        if isinstance(val_s, ast.Name):
            cname = val_s.id
            if C is None:
                C = cname
            my_inc = [s for s in incs if s.target.id == cname]  # type: ignore[union-attr]
            ok_num = key_ok and cname == C and len(my_inc) == 1 and isinstance(my_inc[0].op, ast.Add) \
                and isinstance(my_inc[0].value, ast.Constant) and my_inc[0].value.value == 1 \
                and block.index(my_inc[0]) > bi
            why = (f"number <- {cname}; increments in block: {[u(s) for s in my_inc]}")
            # increments elsewhere inside the loop (outside the lock-step block) break the invariant
            stray = [s for s in _all_name_stores(loop, cname) if s not in my_inc]
            ok_num = ok_num and not stray
        elif isinstance(val_s, ast.Call) and u(val_s.func) == "len" and len(val_s.args) == 1 and u(val_s.args[0]) == lname:
            ok_num = key_ok and bi < ai
            why = "number <- len(list) before append"
        else:
            raise Undecided(f"{q}: new block number in grid loop [{tag}] is neither a counter nor len(<sizes>): {u(val_s)}")
        ctx.check("R2", ok_num, rel, q, ins_stmt,
                  "the new block number must equal the position of the size appended for the same variable "
                  "(counter used, then incremented once, inside the same guard)",
                  construct=f"[{tag}] {dname}[{u(key)}] <- {u(val_s)}; {why}")
        ctx.sample({"rule": "R2", "loop": tag, "size": u(size_expr), "number": u(val_s), "key": u(key)})
    if L is None or D is None:
        return
    # initialisation of the lock-step pair and of the counter, before the first grid loop, at top level
    first_idx = min(top.index(_top_of(pm, fn, l)) for l, _ in grid_loops)
    li, di = _top_assign(fn, L), _top_assign(fn, D)
    ok_init = (len(li) == 1 and len(di) == 1 and li[0][0] < first_idx and di[0][0] < first_idx
               and _empty_container(li[0][2], "list") and _empty_container(di[0][2], "dict")
               and len(_all_name_stores(fn, L)) == 1 and len(_all_name_stores(fn, D)) == 1)
    if C is not None:
        ci = _top_assign(fn, C)
        inits = [s for s in _all_name_stores(fn, C) if not isinstance(s, ast.AugAssign)]
        ok_init = ok_init and len(ci) == 1 and len(inits) == 1 and ci[0][0] < first_idx and isinstance(
            ci[0][2], ast.Constant) and ci[0][2].value == 0
    ctx.check("R2", ok_init, rel, q, li[0][1] if li else fn,
              "new size list / number dict start empty and the counter starts at 0 exactly once, before the first grid loop "
              "(a reset between the loops would restart interface numbers at 0)",
              construct=f"init {L}, {D}, {C}")
    # final replacement of both attributes from the pair, after the last loop
    writes = state_writes(fn)
    fin_sizes = [w for w in writes if w[2] == "_variable_num_dofs"]
    fin_nums = [w for w in writes if w[2] == "_variable_numbers"]
    others = [w for w in writes if w[2] not in ("_variable_num_dofs", "_variable_numbers")]
    if others:
        raise Undecided(f"{q}: writes to {[w[2] for w in others]}")

    def _final_ok(ws, src_name, wrap) -> bool:
        if len(ws) != 1:
            return False
        stmt, recv, attr, how = ws[0]
        if recv != "self" or how != "rebind" or stmt not in top or top.index(stmt) <= last_top_idx:
            return False
        v = stmt.value  # type: ignore[attr-defined]
        if wrap:
            return isinstance(v, ast.Call) and call_name(v) in ("array", "asarray") and v.args and u(v.args[0]) == src_name
        return u(v) == src_name

    ctx.check("R2", _final_ok(fin_sizes, L, True), rel, q, fin_sizes[0][0] if fin_sizes else fn,
              f"_variable_num_dofs must be replaced by the new size list ({L}) after the last grid loop",
              construct=f"final _variable_num_dofs <- {[u(w[0]) for w in fin_sizes]}")
    ctx.check("R2", _final_ok(fin_nums, D, False), rel, q, fin_nums[0][0] if fin_nums else fn,
              f"_variable_numbers must be replaced by the new number dict ({D}) after the last grid loop",
              construct=f"final _variable_numbers <- {[u(w[0]) for w in fin_nums]}")


def _top_of(pm: dict, fn: ast.AST, n: ast.AST) -> ast.AST:
    while pm.get(n) is not fn:
        n = pm[n]
    return n


def _block_of(pm: dict, stmt: ast.stmt) -> list[ast.stmt]:
    par = pm[stmt]
    for fld in ("body", "orelse", "finalbody"):
        b = getattr(par, fld, None)
        if isinstance(b, list) and any(s is stmt for s in b):
            return b
    raise Undecided("statement without enclosing block")


def _guard_of_block(pm: dict, block: list[ast.stmt], stmt: ast.stmt, vloop: ast.AST) -> Optional[ast.expr]:
    """The test guarding `block` inside the variable loop: `if T:` body, or `if not-T: continue` prefix."""
    par = pm[stmt]
    if isinstance(par, ast.If) and block is par.body:
        return par.test
    if par is vloop or isinstance(par, ast.For):
        for s in block:
            if s is stmt:
                break
            if isinstance(s, ast.If) and len(s.body) == 1 and isinstance(s.body[0], ast.Continue) and not s.orelse:
                t = s.test
                if isinstance(t, ast.Compare) and len(t.ops) == 1 and isinstance(t.ops[0], (ast.NotEq, ast.IsNot)):
                    return ast.Compare(left=t.left, ops=[ast.Eq()], comparators=t.comparators)
                if isinstance(t, ast.UnaryOp) and isinstance(t.op, ast.Not):
                    return t.operand
    return None


def _is_domain_test(t: ast.expr, vname: str, gname: str) -> bool:
    if isinstance(t, ast.Compare) and len(t.ops) == 1 and isinstance(t.ops[0], (ast.Eq, ast.Is)):
        sides = {u(t.left), u(t.comparators[0])}
        return sides == {f"{vname}.domain", gname}
    return False


# ----------------------------------------------------------------------------------------------
# R3 readers
# ----------------------------------------------------------------------------------------------

def _offsets_kind(e: ast.expr) -> Optional[str]:
    """'ok' for hstack((0, cumsum(self._variable_num_dofs))) and equivalents, 'nozero' for the bare cumsum."""
    def is_cumsum(x):
        return isinstance(x, ast.Call) and call_name(x) == "cumsum" and len(x.args) >= 1 and _is_self_attr(
            x.args[0], "_variable_num_dofs")

    def is_zero(x):
        if isinstance(x, ast.Constant) and x.value == 0:
            return True
        return isinstance(x, (ast.List, ast.Tuple)) and len(x.elts) == 1 and is_zero(x.elts[0])

    if is_cumsum(e):
        return "nozero"
    if isinstance(e, ast.Call) and call_name(e) in ("hstack", "concatenate") and e.args and isinstance(
            e.args[0], (ast.Tuple, ast.List)) and len(e.args[0].elts) == 2:
        a, b = e.args[0].elts
        if is_zero(a) and is_cumsum(b):
            return "ok"
        if is_cumsum(a) or is_cumsum(b):
            return "bad"
    if isinstance(e, ast.Call) and call_name(e) == "insert" and len(e.args) == 3 and is_cumsum(e.args[0]) and is_zero(
            e.args[1]) and is_zero(e.args[2]):
        return "ok"
    return None


def _offsets_kind_resolved(e: ast.expr) -> Optional[str]:
    k = _offsets_kind(e)
    if k is None:
        h = _helper_return(e)
        if h is not None:
            k = _offsets_kind(h)
    return k


def _find_offsets(ctx: Ctx, rel: str, q: str, fn: ast.FunctionDef) -> str:
    """Locate the local offsets array; records the obligation; returns its name."""
    for s in walk_local(fn):
        if isinstance(s, ast.Assign) and len(s.targets) == 1 and isinstance(s.targets[0], ast.Name):
            k = _offsets_kind_resolved(s.value)
            if k is not None:
                name = s.targets[0].id
                if len(_all_name_stores(fn, name)) != 1:
                    raise Undecided(f"{q}: offsets array {name} assigned more than once")
                ctx.check("R3", k == "ok", rel, q, s,
                          "block offsets must be (0, cumsum(_variable_num_dofs)): entry n is the start of block n and entry "
                          "n+1 its end", construct=f"offsets <- {u(_helper_return(s.value) or s.value)}", facts={"kind": k})
                return name
    raise Undecided(f"{q}: no offsets array derived from cumsum(self._variable_num_dofs) found")


def _idx_plus(e: ast.expr, name_txt: str) -> Optional[int]:
    """k if e is `<name>` (0) or `<name> + k` / `k + <name>`."""
    if u(e) == name_txt:
        return 0
    if isinstance(e, ast.BinOp) and isinstance(e.op, ast.Add):
        for a, b in ((e.left, e.right), (e.right, e.left)):
            if u(a) == name_txt and isinstance(b, ast.Constant) and isinstance(b.value, int):
                return b.value
    if isinstance(e, ast.BinOp) and isinstance(e.op, ast.Sub) and u(e.left) == name_txt and isinstance(
            e.right, ast.Constant) and isinstance(e.right.value, int):
        return -e.right.value
    return None


def _check_dofs_of(ctx: Ctx, rel: str, fn: ast.FunctionDef) -> None:
    q = f"{CLS}.dofs_of"
    G = _find_offsets(ctx, rel, q, fn)
    pm = parent_map(fn)
    cands = []
    for c in walk_local(fn):
        if isinstance(c, ast.Call) and call_name(c) == "arange" and len(c.args) >= 2:
            st = enclosing_stmt(pm, c)
            loop = pm[st]
            while loop is not fn and not isinstance(loop, ast.For):
                loop = pm[loop]
            if not isinstance(loop, ast.For):
                continue
            env = _env_chain(pm, st, loop)
            lo, hi = subst(c.args[0], env), subst(c.args[1], env)
            if any(isinstance(n, ast.Name) and n.id == G for x in (lo, hi) for n in ast.walk(x)):
                cands.append((c, st, loop, lo, hi))
    if len(cands) != 1:
        raise Undecided(f"{q}: expected one arange over the offsets array, found {len(cands)}")
    ar, st, loop, lo, hi = cands[0]
    if not isinstance(loop.target, ast.Name):
        raise Undecided(f"{q}: index ranges are not produced in a for loop over variables")
    v = loop.target.id
    nexpr = None
    for e in (lo, hi):
        if isinstance(e, ast.Subscript) and u(e.value) == G:
            for n in ast.walk(e.slice):
                if isinstance(n, ast.Subscript) and _is_self_attr(n.value, "_variable_numbers"):
                    nexpr = n
    ok_n = nexpr is not None and u(nexpr.slice) == f"{v}.id"
    ctx.check("R3", ok_n, rel, q, st,
              f"the block number must be _variable_numbers[{v}.id] of the variable being iterated",
              construct=f"block number <- {u(nexpr) if nexpr is not None else None}")
    if nexpr is None:
        raise Undecided(f"{q}: offsets are not indexed through _variable_numbers")
    ntxt = u(nexpr)
    klo = _idx_plus(lo.slice, ntxt) if isinstance(lo, ast.Subscript) and u(lo.value) == G else None
    khi = _idx_plus(hi.slice, ntxt) if isinstance(hi, ast.Subscript) and u(hi.value) == G else None
    if klo is None or khi is None:
        raise Undecided(f"{q}: arange bounds are not offsets[n + k]: {u(lo)}, {u(hi)}")
    ctx.check("R3", klo == 0, rel, q, ar, "block n starts at offsets[n]", construct=f"arange start offsets[n+{klo}]")
    ctx.check("R3", khi == 1, rel, q, ar, "block n ends (exclusive) at offsets[n+1]", construct=f"arange stop offsets[n+{khi}]")
    ctx.sample({"rule": "R3", "reader": "dofs_of", "start": u(lo), "stop": u(hi)})
    nums = {s.targets[0].id for s in walk_local(fn) if isinstance(s, ast.Assign) and len(s.targets) == 1 and isinstance(s.targets[0], ast.Name)
            and isinstance(s.value, ast.Subscript) and _is_self_attr(s.value.value, "_variable_numbers")}
    if nums:
        _block_number_subscripts(ctx, rel, q, fn, nums)


def _check_identify_dof(ctx: Ctx, rel: str, fn: ast.FunctionDef) -> None:
    q = f"{CLS}.identify_dof"
    G = _find_offsets(ctx, rel, q, fn)
    params = [a.arg for a in fn.args.args]
    dof = params[1] if len(params) > 1 else None
    am = [c for c in walk_local(fn) if isinstance(c, ast.Call) and call_name(c) in ("argmax", "searchsorted")]
    if len(am) != 1 or dof is None:
        raise Undecided(f"{q}: expected exactly one argmax/searchsorted over the offsets (unknown block search idiom)")
    pm = parent_map(fn)
    c = am[0]
    arg = c.args[0] if c.args else None
    verdict = None
    if call_name(c) == "searchsorted":
        # searchsorted(offsets, dof, side='right') == argmax(offsets > dof); the default side='left' equals `>=`
        hay = c.func.value if (isinstance(c.func, ast.Attribute) and u(c.func.value) == G) else (c.args[0] if c.args else None)
        needle = c.args[0] if hay is not None and hay is not (c.args[0] if c.args else None) else (c.args[1] if len(c.args) > 1 else None)
        side = kwarg(c, "side")
        if hay is not None and u(hay) == G and needle is not None and u(needle) == dof:
            verdict = isinstance(side, ast.Constant) and side.value == "right"
            arg = c
    elif isinstance(arg, ast.Compare) and len(arg.ops) == 1:
        l, op, r = u(arg.left), arg.ops[0], u(arg.comparators[0])
        if (l, r) == (G, dof):
            verdict = isinstance(op, ast.Gt) if isinstance(op, (ast.Gt, ast.GtE)) else None
        elif (l, r) == (dof, G):
            verdict = isinstance(op, ast.Lt) if isinstance(op, (ast.Lt, ast.LtE)) else None
    if verdict is None:
        raise Undecided(f"{q}: block search is not a comparison of the offsets with the dof: {u(arg) if arg else None}")
    ctx.check("R3", verdict, rel, q, c,
              "the first offset STRICTLY greater than dof is the end of the owning block (>= would assign the first dof of "
              "every block to its predecessor)", construct=f"argmax({u(arg)})")
    par = pm[c]
    k = None
    if isinstance(par, ast.BinOp) and par.left is c and isinstance(par.right, ast.Constant):
        k = -par.right.value if isinstance(par.op, ast.Sub) else (par.right.value if isinstance(par.op, ast.Add) else None)
    elif isinstance(par, (ast.Assign, ast.AnnAssign)):
        k = 0
    if k is None:
        raise Undecided(f"{q}: unrecognised use of argmax result")
    ctx.check("R3", k == -1, rel, q, par if isinstance(par, ast.BinOp) else c,
              "index of the first offset above dof, minus one, is the block number (offsets carry a leading 0)",
              construct=f"argmax(...) + ({k})")
    st = enclosing_stmt(pm, c)
    if not (isinstance(st, ast.Assign) and isinstance(st.targets[0], ast.Name)):
        raise Undecided(f"{q}: block number not bound to a name")
    N = st.targets[0].id
    # index-space typing: N is a BLOCK number; it may index block-ordered containers only
    misuse = _block_number_subscripts(ctx, rel, q, fn, {N})
    # id lookup: the id whose number equals N, over _variable_numbers.items()
    found = False
    for comp in [n for n in walk_local(fn) if isinstance(n, (ast.ListComp, ast.GeneratorExp, ast.SetComp))]:
        gen = comp.generators[0]
        if isinstance(gen.iter, ast.Call) and isinstance(gen.iter.func, ast.Attribute) and gen.iter.func.attr == "items" \
                and _is_self_attr(gen.iter.func.value, "_variable_numbers") and isinstance(gen.target, ast.Tuple):
            kname, vname = u(gen.target.elts[0]), u(gen.target.elts[1])
            conds = [x for x in gen.ifs if isinstance(x, ast.Compare) and len(x.ops) == 1 and isinstance(x.ops[0], ast.Eq)]
            ok = (u(comp.elt) == kname and len(conds) == 1
                  and {u(conds[0].left), u(conds[0].comparators[0])} == {vname, N})
            ctx.check("R3", ok, rel, q, comp,
                      "the owning id is the key of _variable_numbers whose value equals the block number",
                      construct=u(comp))
            found = True
    for lp in [n for n in walk_local(fn) if isinstance(n, ast.For)]:
        it = lp.iter
        if isinstance(it, ast.Call) and isinstance(it.func, ast.Attribute) and it.func.attr == "items" \
                and _is_self_attr(it.func.value, "_variable_numbers") and isinstance(lp.target, ast.Tuple) and len(lp.target.elts) == 2:
            kname, vname = u(lp.target.elts[0]), u(lp.target.elts[1])
            conds = [x for x in walk_local(lp) if isinstance(x, ast.Compare) and len(x.ops) == 1 and isinstance(x.ops[0], ast.Eq)
                     and {u(x.left), u(x.comparators[0])} == {vname, N}]
            uses = [x for x in walk_local(lp) if isinstance(x, ast.Subscript) and _is_self_attr(x.value, "_variables")]
            ok = len(conds) == 1 and bool(uses) and all(u(x.slice) == kname for x in uses)
            ctx.check("R3", ok, rel, q, lp,
                      "the owning id is the key of _variable_numbers whose value equals the block number",
                      construct=f"for {kname}, {vname} in _variable_numbers.items(): {[u(c_) for c_ in conds]}")
            found = True
    if not found and not misuse:
        raise Undecided(f"{q}: lookup of the id through _variable_numbers.items() not found")


def _creation_ordered(fn: ast.AST, e: ast.expr, depth: int = 0) -> Optional[str]:
    """Why `e` is a sequence in CREATION order (None if it is not known to be one)."""
    x = e
    if isinstance(x, ast.Call) and call_name(x) in ("list", "tuple") and len(x.args) == 1:
        x = x.args[0]
    if _is_self_attr(x, "variables"):
        return "self.variables lists _variables.values() in creation order"
    base = x.func.value if isinstance(x, ast.Call) and isinstance(x.func, ast.Attribute) and x.func.attr in ("values", "keys", "items") else x
    if _is_self_attr(base, "_variables") or _is_self_attr(base, "_variable_dof_type"):
        return f"{u(x)} is in creation order"
    if isinstance(x, (ast.ListComp, ast.GeneratorExp)) and len(x.generators) == 1:
        return _creation_ordered(fn, x.generators[0].iter, depth + 1)
    if isinstance(x, ast.Name) and depth < 3:
        st = _all_name_stores(fn, x.id)
        if len(st) == 1 and isinstance(st[0], ast.Assign):
            return _creation_ordered(fn, st[0].value, depth + 1)
    return None


def _block_number_subscripts(ctx: Ctx, rel: str, q: str, fn: ast.FunctionDef, numbers: set[str]) -> int:
    """Every `X[n]` / `X[n +- k]` with n a block number: X must be block-ordered (the offsets, _variable_num_dofs).
    Indexing a creation-ordered container with a block number is a finding; returns the number of findings."""
    bad = 0
    for n in walk_local(fn):
        if not isinstance(n, ast.Subscript) or isinstance(n.slice, ast.Slice):
            continue
        if not any(_idx_plus(n.slice, nm) is not None for nm in numbers):
            continue
        base = n.value
        why = _creation_ordered(fn, base)
        if why is not None:
            ok = False
        elif _is_self_attr(base, "_variable_num_dofs") or (isinstance(base, ast.Name) and any(
                _offsets_kind_resolved(s.value) is not None for s in _all_name_stores(fn, base.id) if isinstance(s, ast.Assign))):
            ok, why = True, "block-ordered"
        else:
            raise Undecided(f"{q}: block number indexes an unclassified container {u(base)[:60]}")
        bad += not ok
        ctx.check("R3", ok, rel, q, n,
                  f"a block number indexes `{u(base)[:50]}`: {why}; block order differs from creation order as soon as variables are "
                  f"created grid-interleaved or after a removal - the variable must be found through _variable_numbers",
                  construct=f"{u(n)[:80]} (block number into {'block' if ok else 'creation'}-ordered container)",
                  desc=f"block number indexes block-ordered `{u(base)[:40]}`")
    return bad


def _check_projection_to(ctx: Ctx, rel: str, fn: ast.FunctionDef) -> None:
    q = f"{CLS}.projection_to"
    cons = [c for c in walk_local(fn) if isinstance(c, ast.Call) and call_name(c) in ("coo_matrix", "csr_matrix", "csc_matrix", "coo_array", "csr_array")
            and c.args and isinstance(c.args[0], ast.Tuple) and len(c.args[0].elts) == 2
            and isinstance(c.args[0].elts[1], ast.Tuple) and len(c.args[0].elts[1].elts) == 2]
    if len(cons) != 1:
        raise Undecided(f"{q}: expected one (data, (rows, cols)) sparse constructor, found {len(cons)}")
    c = cons[0]
    rows, cols = c.args[0].elts[1].elts  # type: ignore[union-attr]
    rows_i, cols_i = inline_locals(fn, rows), inline_locals(fn, cols)

    def uses_dofs(e):
        return any(isinstance(n, ast.Call) and isinstance(n.func, ast.Attribute) and n.func.attr == "dofs_of"
                   and u(n.func.value) == "self" for n in ast.walk(e))

    if uses_dofs(rows_i) and not uses_dofs(cols_i):
        ctx.check("R3", False, rel, q, c, "dof indices must be the COLUMN indices of the projection (rows enumerate the subspace)",
                  construct=f"(rows, cols) = ({u(rows_i)}, {u(cols_i)})")
        return
    if not uses_dofs(cols_i):
        raise Undecided(f"{q}: column indices are not derived from self.dofs_of(...)")
    sorted_ok = isinstance(cols_i, ast.Call) and call_name(cols_i) in ("sort", "unique", "sorted") and cols_i.args and isinstance(
        cols_i.args[0], ast.Call) and call_name(cols_i.args[0]) == "dofs_of"
    if not sorted_ok and not (isinstance(cols_i, ast.Call) and call_name(cols_i) == "dofs_of"):
        raise Undecided(f"{q}: unrecognised derivation of the column indices: {u(cols_i)}")
    ctx.check("R3", sorted_ok, rel, q, c,
              "dofs_of returns indices in the order of its argument; the projection must sort them, otherwise it permutes "
              "the sub-vector away from the global order", construct=f"cols <- {u(cols_i)}")
    params = [a.arg for a in fn.args.args]
    arg_ok = sorted_ok and [u(a) for a in cols_i.args[0].args] == [params[1]]  # type: ignore[union-attr]
    ctx.check("R3", bool(arg_ok), rel, q, c, "the projected indices are those of the requested variables",
              construct=f"dofs_of argument {u(cols_i.args[0]) if sorted_ok else None}")  # type: ignore[union-attr]
    ok_rows = isinstance(rows_i, ast.Call) and call_name(rows_i) == "arange" and len(rows_i.args) == 1
    ctx.check("R3", ok_rows, rel, q, c, "row i of the projection picks the i-th (sorted) index", construct=f"rows <- {u(rows_i)}")
    shp = kwarg(c, "shape")
    shp_i = inline_locals(fn, shp) if shp is not None else None
    ok_shape = isinstance(shp_i, ast.Tuple) and len(shp_i.elts) == 2 and u(shp_i.elts[1]) == "self.num_dofs()" \
        and ok_rows and u(shp_i.elts[0]) == u(rows_i.args[0])  # type: ignore[union-attr]
    ctx.check("R3", bool(ok_shape), rel, q, c, "shape must be (subspace size, num_dofs)",
              construct=f"shape <- {u(shp_i) if shp_i is not None else None}")


def _order_source(fn: ast.AST, it: ast.expr) -> tuple[str, str]:
    """Classify what a `for` iterates: ('block', why) ok; ('bad', why) known wrong order."""
    e = it
    if isinstance(e, ast.Call) and call_name(e) in ("list", "tuple", "enumerate", "iter") and len(e.args) == 1:
        e = e.args[0]
    if isinstance(e, ast.Call) and call_name(e) == "sorted" and e.args:
        inner = e.args[0]
        base = inner.func.value if isinstance(inner, ast.Call) and isinstance(inner.func, ast.Attribute) else inner
        key = kwarg(e, "key")
        if _is_self_attr(base, "_variable_numbers"):
            if key is None:
                return "bad", "sorted() without key orders by variable id (creation order), not by block number"
            raise Undecided(f"sorted(..., key=...) over _variable_numbers: {u(e)}")
        return "bad", f"sorted({u(inner)}) is not the block order"
    if isinstance(e, ast.Call) and call_name(e) in ("reversed",):
        return "bad", "reversed order"
    if isinstance(e, ast.Call) and call_name(e) in ("set", "frozenset"):
        return "bad", "iteration over a set is unordered"
    base = e
    if isinstance(e, ast.Call) and isinstance(e.func, ast.Attribute) and e.func.attr in ("items", "keys", "values") and not e.args:
        base = e.func.value
    if _is_self_attr(base, "_variable_numbers"):
        return "block", "insertion order of _variable_numbers == block order (R2)"
    if _is_self_attr(base, "_variables") or _is_self_attr(base, "variables"):
        return "bad", "_variables is in creation order, not block order"
    if _is_self_attr(base, "_variable_dof_type"):
        return "bad", "_variable_dof_type is in creation order, not block order"
    if isinstance(base, ast.Name):
        params = [a.arg for a in fn.args.args]  # type: ignore[attr-defined]
        stores = _all_name_stores(fn, base.id)
        if base.id in params or any("_parse_variable_type" in u(s) for s in stores):
            return "bad", f"'{base.id}' is the caller's variable list (argument order), not block order"
        if len(stores) == 1 and isinstance(stores[0], ast.Assign):
            return _order_source(fn, stores[0].value)
    raise Undecided(f"cannot classify iteration source {u(it)}")


def _check_get_values(ctx: Ctx, rel: str, fn: ast.FunctionDef) -> None:
    q = f"{CLS}.get_variable_values"
    pm = parent_map(fn)
    cat = [c for c in walk_local(fn) if isinstance(c, ast.Call) and call_name(c) in ("concatenate", "hstack")
           and isinstance(pm.get(c), (ast.Return, ast.IfExp))]
    if len(cat) != 1 or not cat[0].args or not isinstance(cat[0].args[0], ast.Name):
        raise Undecided(f"{q}: returned value is not concatenate(<list>)")
    L = cat[0].args[0].id
    apps = [c for c in walk_local(fn) if isinstance(c, ast.Call) and isinstance(c.func, ast.Attribute)
            and c.func.attr in ("append", "extend", "insert") and u(c.func.value) == L]
    lstores = _all_name_stores(fn, L)
    if not apps and len(lstores) == 1 and isinstance(getattr(lstores[0], "value", None), ast.ListComp) \
            and len(lstores[0].value.generators) == 1:
        # values = [<fetch> for id in <source> if id in <requested>]: the comprehension plays the role of the loop
        comp = lstores[0].value
        gen = comp.generators[0]
        loop = ast.For(target=gen.target, iter=gen.iter, body=[ast.Expr(value=comp.elt)] + [ast.Expr(value=c) for c in gen.ifs], orelse=[])
        ast.copy_location(loop, comp)
    else:
        if len(apps) != 1 or apps[0].func.attr != "append":  # type: ignore[union-attr]
            raise Undecided(f"{q}: expected a single append to the value list {L}")
        loops = []
        cur: ast.AST = apps[0]
        while cur in pm and pm[cur] is not fn:
            cur = pm[cur]
            if isinstance(cur, (ast.For, ast.While)):
                loops.append(cur)
        if len(loops) != 1 or not isinstance(loops[0], ast.For):
            raise Undecided(f"{q}: value blocks are not appended in a single for loop")
        loop = loops[0]
    kind, why = _order_source(fn, loop.iter)
    ctx.check("R3", kind == "block", rel, q, loop,
              f"values must be gathered in block order (iterate _variable_numbers): {why}",
              construct=f"for ... in {u(loop.iter)}", facts={"why": why})
    if kind != "block":
        return
    idn = u(loop.target.elts[0]) if isinstance(loop.target, ast.Tuple) else u(loop.target)
    # the variable whose values are fetched is _variables[<iterated id>], filtered by membership of the id
    lookups = [n for n in walk_local(loop) if isinstance(n, ast.Subscript) and _is_self_attr(n.value, "_variables")]
    ok = bool(lookups) and all(u(n.slice) == idn for n in lookups)
    ctx.check("R3", ok, rel, q, lookups[0] if lookups else loop,
              "the block's variable is _variables[<iterated id>]", construct=f"lookups {[u(n) for n in lookups]}")
    tests = [t for t in walk_local(loop) if isinstance(t, ast.Compare) and len(t.ops) == 1 and isinstance(t.ops[0], (ast.In, ast.NotIn))
             and u(t.left) == idn]
    ctx.check("R3", len(tests) >= 1, rel, q, tests[0] if tests else loop,
              "blocks are selected by membership of the iterated id in the requested ids",
              construct=f"filter {[u(t) for t in tests]}")


def _check_set_values(ctx: Ctx, rel: str, fn: ast.FunctionDef) -> None:
    q = f"{CLS}.set_variable_values"
    pm = parent_map(fn)
    params = [a.arg for a in fn.args.args]
    if len(params) < 2:
        raise AnchorError(f"{q}: signature changed")
    vals = params[1]
    slices = [n for n in walk_local(fn) if isinstance(n, ast.Subscript) and u(n.value) == vals and isinstance(n.slice, ast.Slice)]
    if len(slices) != 1:
        raise Undecided(f"{q}: expected one slice of '{vals}', found {len(slices)}")
    sl = slices[0]
    lo, hi = sl.slice.lower, sl.slice.upper  # type: ignore[union-attr]
    if not (isinstance(lo, ast.Name) and isinstance(hi, ast.Name)) or sl.slice.step is not None:  # type: ignore[union-attr]
        raise Undecided(f"{q}: slice bounds are not two names: {u(sl)}")
    a, b = lo.id, hi.id
    sl_stmt = enclosing_stmt(pm, sl)
    loop: ast.AST = sl_stmt
    while loop is not fn and not isinstance(loop, ast.For):
        loop = pm[loop]
    if not isinstance(loop, ast.For):
        raise Undecided(f"{q}: slicing is not inside a for loop")
    # order
    kind, why = _order_source(fn, loop.iter)
    ctx.check("R3", kind == "block", rel, q, loop,
              f"the vector must be dissected in block order (iterate _variable_numbers.items()): {why}",
              construct=f"for ... in {u(loop.iter)}", facts={"why": why})
    if kind != "block":
        return
    if not (isinstance(loop.target, ast.Tuple) and len(loop.target.elts) == 2 and isinstance(loop.iter, ast.Call)
            and call_name(loop.iter) == "items"):
        raise Undecided(f"{q}: loop does not unpack (id, number) from _variable_numbers.items()")
    idn, numn = u(loop.target.elts[0]), u(loop.target.elts[1])
    # cursor start initialised to 0 before the loop
    g = cfgmod.build(fn)
    ln = g.node_for(loop)
    a_stores = _all_name_stores(fn, a)
    init = [s for s in a_stores if not _inside(pm, s, loop)]
    ok_init = len(init) == 1 and isinstance(init[0], ast.Assign) and isinstance(init[0].value, ast.Constant) \
        and init[0].value.value == 0 and g.dominates(g.node_for(init[0]), ln)
    ctx.check("R3", ok_init, rel, q, init[0] if init else loop, "the dissection cursor starts at 0",
              construct=f"{a} init {[u(s) for s in init]}")
    # end = start + size, size = _variable_num_dofs[number]
    b_in = [s for s in _all_name_stores(fn, b) if _inside(pm, s, loop)]
    if len(b_in) != 1 or not isinstance(b_in[0], ast.Assign):
        raise Undecided(f"{q}: '{b}' is not assigned exactly once inside the loop")
    bst = b_in[0]
    block = _block_of(pm, bst)
    env = _env_chain(pm, bst, loop)
    bexpr = subst(bst.value, env)
    size = None
    if isinstance(bexpr, ast.BinOp) and isinstance(bexpr.op, ast.Add):
        if u(bexpr.left) == a:
            size = bexpr.right
        elif u(bexpr.right) == a:
            size = bexpr.left
    if size is None:
        raise Undecided(f"{q}: '{b}' is not '{a} + <size>': {u(bexpr)}")
    size = _unwrap(size)
    if not (isinstance(size, ast.Subscript) and _is_self_attr(size.value, "_variable_num_dofs")):
        raise Undecided(f"{q}: block size is not read from _variable_num_dofs: {u(size)}")
    ctx.check("R3", u(size.slice) == numn, rel, q, bst,
              f"the block size must be _variable_num_dofs[{numn}] - the number paired with the iterated id",
              construct=f"size <- {u(size)}")
    ok_order = _block_of(pm, sl_stmt) is block and block.index(bst) < block.index(sl_stmt)
    ctx.check("R3", ok_order, rel, q, sl_stmt, f"the slice [{a}:{b}] is taken after '{b}' was moved to the end of this block",
              construct=f"slice {u(sl)} after {u(bst)}")
    # slice + variable are passed to set_solution_values
    setc = [c for c in walk_local(loop) if isinstance(c, ast.Call) and call_name(c) == "set_solution_values"]
    if len(setc) != 1:
        raise Undecided(f"{q}: expected one set_solution_values call in the loop")
    sc = setc[0]
    sc_stmt = enclosing_stmt(pm, sc)
    senv = _env_chain(pm, sc_stmt, loop)
    args = [subst(x, senv) for x in sc.args] + [subst(k.value, senv) for k in sc.keywords]
    passes_slice = any(u(x) == u(subst(sl, senv)) for x in args)
    var_lookups = [n for x in args for n in ast.walk(x) if isinstance(n, ast.Subscript) and _is_self_attr(n.value, "_variables")]
    ok_pass = passes_slice and bool(var_lookups) and all(u(n.slice) == idn for n in var_lookups)
    ctx.check("R3", ok_pass, rel, q, sc,
              f"the slice is stored for the variable _variables[{idn}] of the same iteration",
              construct=f"set_solution_values args {[u(x)[:50] for x in args[:3]]}")
    # every selected variable reaches the store: no path through the loop body skips set_solution_values except
    # through the not-selected side of a membership test of the iterated id
    import networkx as nx
    g2 = g.g.copy()
    scn = g.node_for(_cfg_stmt(g, fn, sc_stmt))
    g2.remove_node(scn)
    for tn, ts in list(g.stmt.items()):
        if isinstance(ts, ast.If) and isinstance(ts.test, ast.Compare) and len(ts.test.ops) == 1 and u(ts.test.left) == idn \
                and isinstance(ts.test.ops[0], (ast.In, ast.NotIn)) and tn in g2:
            skip_cond = isinstance(ts.test.ops[0], ast.NotIn)  # edge taken when the id is NOT requested
            for _, m_, d_ in list(g2.out_edges(tn, data=True)):
                if d_.get("cond") is skip_cond:
                    g2.remove_edge(tn, m_)
    entries = [m_ for _, m_, d_ in g.g.out_edges(ln, data=True) if d_.get("cond") is True and m_ in g2]
    skipping = any(nx.has_path(g2, e_, ln) for e_ in entries)
    ctx.check("R3", not skipping, rel, q, sc,
              "a requested variable can pass through the loop body without its (possibly empty) slice being stored: the block "
              "stays unset in the data dictionary and a later get_variable_values raises / the round trip loses the variable",
              construct="set_variable_values: path through the loop body that skips set_solution_values for a requested variable",
              desc="every requested variable reaches set_solution_values on every path through the loop body")
    # advance: every path from the slice back to the loop header passes `a = b` (or a += size)
    adv = [s for s in a_stores if _inside(pm, s, loop)]
    good_adv = [s for s in adv if (isinstance(s, ast.Assign) and u(s.value) == b)
                or (isinstance(s, ast.AugAssign) and isinstance(s.op, ast.Add) and u(_unwrap(subst(s.value, env))) == u(size))]
    ok_adv = False
    if len(adv) == len(good_adv) and good_adv:
        sn = g.node_for(_cfg_stmt(g, fn, sl_stmt))
        ok_adv = g.every_path_passes(sn, ln, {g.node_for(_cfg_stmt(g, fn, s)) for s in good_adv})
    ctx.check("R3", ok_adv, rel, q, good_adv[0] if good_adv else loop,
              f"after every written block the cursor '{a}' must move to '{b}' before the next iteration",
              construct=f"advance {[u(s) for s in adv]}")
    ctx.sample({"rule": "R3", "reader": "set_variable_values", "size": u(size), "slice": u(sl), "advance": [u(s) for s in adv]})


def _inside(pm: dict, n: ast.AST, anc: ast.AST) -> bool:
    while n in pm:
        n = pm[n]
        if n is anc:
            return True
    return False


def _check_num_dofs(ctx: Ctx, rel: str, fn: ast.FunctionDef) -> None:
    q = f"{CLS}.num_dofs"
    rets = [r for r in walk_local(fn) if isinstance(r, ast.Return)]
    if len(rets) != 1 or rets[0].value is None:
        raise Undecided(f"{q}: expected a single return")
    v = _unwrap(rets[0].value)
    ok = (isinstance(v, ast.Call) and call_name(v) == "sum" and (
        (v.args and _is_self_attr(v.args[0], "_variable_num_dofs"))
        or (isinstance(v.func, ast.Attribute) and _is_self_attr(v.func.value, "_variable_num_dofs"))))
    ctx.check("R3", ok, rel, q, rets[0], "num_dofs is the sum of all block sizes", construct=f"return {u(v)}")


# ----------------------------------------------------------------------------------------------
# R5 additive writes: dtype of a slot that is accumulated in place
# ----------------------------------------------------------------------------------------------

ADUTILS = "src/porepy/numerics/ad/ad_utils.py"
FLOAT_DTYPES = {"float", "np.float64", "numpy.float64", "np.double", "np.floating", "'float64'", "'float'", "np.float_", "complex", "np.complex128"}


def _is_float_dtype(d: ast.expr) -> bool:
    if u(d) in FLOAT_DTYPES:
        return True
    # np.result_type(x, float) / np.promote_types(x.dtype, float): at least floating, whatever x is
    return isinstance(d, ast.Call) and call_name(d) in ("result_type", "promote_types") and any(u(a) in FLOAT_DTYPES for a in d.args)


def _fixes_float_dtype(e: ast.expr) -> Optional[bool]:
    """True if the expression yields a fresh array of floating dtype whatever the argument's dtype, False if it inherits
    the argument's dtype, None if unknown."""
    if isinstance(e, ast.Call):
        cn = call_name(e)
        dt = kwarg(e, "dtype")
        if cn in ("array", "asarray", "asfarray", "ascontiguousarray", "zeros_like", "empty_like", "full_like"):
            if cn == "asfarray":
                return True
            if dt is not None:
                return _is_float_dtype(dt)
            if len(e.args) >= 2 and _is_float_dtype(e.args[1]):
                return True
            return False
        if cn == "astype" and e.args:
            return _is_float_dtype(e.args[0])
        if cn == "copy" and isinstance(e.func, ast.Attribute):
            inner = _fixes_float_dtype(e.func.value)
            return False if inner is None and isinstance(e.func.value, ast.Name) else inner
        if cn in ("float64", "double"):
            return True
    if isinstance(e, ast.BinOp):
        # arithmetic with a float literal promotes (x * 1.0, x + 0.0)
        for a in (e.left, e.right):
            if isinstance(a, ast.Constant) and isinstance(a.value, float):
                return True
        return None
    if isinstance(e, ast.Name):
        return False
    return None


def _check_additive_dtype(ctx: Ctx) -> None:
    mod = ctx.repo.module(ADUTILS)
    fn = mod.func("set_solution_values")
    q = "set_solution_values"
    params = [a.arg for a in fn.args.args]
    augs = [s for s in walk_local(fn) if isinstance(s, ast.AugAssign) and isinstance(s.target, ast.Subscript) and isinstance(s.op, ast.Add)]
    stores = [s for s in walk_local(fn) if isinstance(s, ast.Assign) and len(s.targets) == 1 and isinstance(s.targets[0], ast.Subscript)]
    if not augs:
        # out-of-place accumulation (slot = slot + values) lets numpy promote: nothing to require
        acc = [s for s in stores if isinstance(s.value, ast.BinOp) and isinstance(s.value.op, ast.Add)
               and u(s.targets[0]) in (u(s.value.left), u(s.value.right))]
        if not acc:
            raise AnchorError(f"{ADUTILS}:{q}: additive write not found")
        ctx.check("R5", True, mod, q, acc[0], "additive writes accumulate out of place (numpy promotes the dtype)", construct=f"out-of-place {u(acc[0])[:80]}")
        return
    for a in augs:
        slot = u(a.target)
        same = [s for s in stores if u(s.targets[0]) == slot]
        if not same:
            raise Undecided(f"{ADUTILS}:{q}: no plain store into the accumulated slot {slot}")
        for st in same:
            v = inline_locals(fn, st.value, stop=params)
            fx = _fixes_float_dtype(v)
            if fx is None:
                raise Undecided(f"{ADUTILS}:{q}: cannot tell the dtype of the stored array {u(v)[:60]}")
            ctx.check("R5", fx, mod, q, st,
                      f"the slot {slot} is later accumulated IN PLACE ({u(a)}): an in-place += keeps the dtype of the array created here, "
                      f"which is the caller's dtype ({u(v)}); after a first write with an integer array every additive write of floats "
                      f"raises numpy's same-kind casting error (or would truncate): store a floating copy, or accumulate out of place",
                      construct=f"store {slot} = {u(v)} ; accumulate {u(a)}",
                      desc=f"array stored in {slot} has a dtype that can hold later in-place increments")


# ----------------------------------------------------------------------------------------------
# R4 block size formulas
# ----------------------------------------------------------------------------------------------

def _check_size_formula(ctx: Ctx, rel: str, qual: str, fn: ast.FunctionDef, _depth: int = 0, _bind: Optional[dict] = None) -> None:
    pm = parent_map(fn)
    prods = []
    for n in walk_local(fn):
        if isinstance(n, ast.BinOp) and isinstance(n.op, ast.Mult):
            ent = mult = None
            for a, b in ((n.left, n.right), (n.right, n.left)):
                if isinstance(a, ast.Attribute) and a.attr.startswith("num_") and isinstance(b, ast.Call) \
                        and call_name(b) == "get" and b.args and isinstance(b.args[0], ast.Constant):
                    ent, mult = a, b
            if ent is not None:
                prods.append((n, ent, mult))
    if not prods and _depth == 0:
        # the formula may live in ONE private helper shared by the siblings: follow it (one level)
        helpers = [c for c in walk_local(fn) if isinstance(c, ast.Call) and isinstance(c.func, ast.Attribute) and u(c.func.value) == "self"
                   and c.func.attr in _METHS and c.func.attr.startswith("_") and any(
                       isinstance(n, ast.Attribute) and n.attr.startswith("num_") for n in walk_local(_METHS[c.func.attr]))]
        if len(helpers) == 1:
            h = _METHS[helpers[0].func.attr]
            hp = [a.arg for a in h.args.args if a.arg != "self"]
            binding = {p_: a_ for p_, a_ in zip(hp, helpers[0].args)}
            binding.update({k.arg: k.value for k in helpers[0].keywords if k.arg})
            _check_size_formula(ctx, rel, f"{qual} -> {helpers[0].func.attr}", h, _depth=1,
                                _bind={k: inline_locals(fn, v) for k, v in binding.items()})
            return
    if len(prods) != 3:
        raise Undecided(f"{qual}: expected three num_<entity> * multiplicity products, found {len(prods)}")
    seen = []
    dof_src = set()
    for n, ent, mult in prods:
        e1, e2 = ent.attr[len("num_"):], mult.args[0].value
        seen.append(e1)
        ctx.check("R4", e1 == e2 and e1 in ENTITIES, rel, qual, n,
                  f"block size pairs num_{e1} with the multiplicity of '{e2}'", construct=f"num_{e1} * get('{e2}')")
        dflt = mult.args[1] if len(mult.args) > 1 else None
        if not (isinstance(dflt, ast.Constant) and dflt.value == 0):
            raise Undecided(f"{qual}: multiplicity default is not 0: {u(mult)}")
        dof_src.add(u(subst(inline_locals(fn, mult.func.value), _bind or {})))
        # faces / nodes only for subdomains
        if e1 != "cells":
            cur: ast.AST = n
            guarded = False
            while cur in pm and pm[cur] is not fn:
                par = pm[cur]
                if isinstance(par, ast.If) and cur in par.body and isinstance(par.test, ast.Call) and call_name(par.test) == "isinstance" \
                        and len(par.test.args) == 2 and u(par.test.args[1]).split(".")[-1] == "Grid" \
                        and u(inline_locals(fn, par.test.args[0])) == u(inline_locals(fn, ent.value)):
                    guarded = True
                cur = par
            ctx.check("R4", guarded, rel, qual, n,
                      f"num_{e1} contributes only under isinstance(<domain>, pp.Grid) (mortar grids carry cell dofs only)",
                      construct=f"num_{e1} term guarded={guarded}")
    ctx.check("R4", sorted(seen) == sorted(ENTITIES), rel, qual, fn, "each of cells/faces/nodes contributes once",
              construct=f"entities {sorted(seen)}")
    ok_src = len(dof_src) == 1 and "_variable_dof_type[" in next(iter(dof_src))
    ctx.check("R4", ok_src, rel, qual, fn, "multiplicities are read from _variable_dof_type[<id of the same variable>]",
              construct=f"multiplicity source {sorted(dof_src)}")


# ----------------------------------------------------------------------------------------------

def run(ctx: Ctx) -> None:
    mod = ctx.repo.module(ES)
    cls = mod.cls(CLS)
    meths = methods(cls)
    _METHS.clear()
    _METHS.update(meths)
    _RAISING_ACCESSORS.clear()
    _RAISING_ACCESSORS.update(_raising_md_accessors(ctx.repo))
    if not {"subdomain_data", "interface_data"} <= _RAISING_ACCESSORS:
        raise AnchorError(f"{MDGRID}: subdomain_data/interface_data no longer subscript the container dicts unguarded")
    for need in PRIMITIVES + ("__init__", "create_variables", "remove_variables", "dofs_of", "identify_dof",
                              "projection_to", "get_variable_values", "set_variable_values", "num_dofs"):
        if need not in meths:
            raise AnchorError(f"{ES}:{CLS}.{need} not found")

    # ---- R1 ------------------------------------------------------------------------------------
    _check_init(ctx, mod.rel, meths["__init__"])
    n_writers = 0
    for name, fn in meths.items():
        if name in PRIMITIVES or name == "__init__":
            continue
        n = _check_writer(ctx, mod.rel, f"{CLS}.{name}", fn)
        n_writers += 1 if n else 0
        _check_append_callers(ctx, mod.rel, f"{CLS}.{name}", fn)
    if n_writers < 2:
        raise AnchorError(f"{CLS}: expected at least create_variables and remove_variables to write the layout state")
    _check_inherited_order(ctx, mod.rel, meths)
    _check_append_dofs(ctx, mod.rel, meths["_append_dofs"])
    _check_update_num_dofs(ctx, mod.rel, meths["update_variable_num_dofs"])

    # ---- R2 ------------------------------------------------------------------------------------
    _check_cluster(ctx, mod.rel, meths[RECLUSTER])

    # ---- R3 ------------------------------------------------------------------------------------
    _check_dofs_of(ctx, mod.rel, meths["dofs_of"])
    _check_identify_dof(ctx, mod.rel, meths["identify_dof"])
    _check_projection_to(ctx, mod.rel, meths["projection_to"])
    _check_get_values(ctx, mod.rel, meths["get_variable_values"])
    _check_set_values(ctx, mod.rel, meths["set_variable_values"])
    _check_num_dofs(ctx, mod.rel, meths["num_dofs"])

    # ---- R5 ------------------------------------------------------------------------------------
    _check_additive_dtype(ctx)

    # ---- R4 ------------------------------------------------------------------------------------
    _check_size_formula(ctx, mod.rel, f"{CLS}._append_dofs", meths["_append_dofs"])
    _check_size_formula(ctx, mod.rel, f"{CLS}.update_variable_num_dofs", meths["update_variable_num_dofs"])

    # ---- thorough: who else writes the layout state? ---------------------------------------------
    if ctx.tier == "thorough":
        ext = 0
        for m in ctx.repo.modules("src/porepy"):
            if not any(a in m.source for a in SPECIFIC + ("_append_dofs",)):
                continue
            for qn, fn in m.functions():
                if m.rel == ES and qn.startswith(CLS + "."):
                    continue
                ws = [w for w in state_writes(fn) if w[2] in SPECIFIC or w[3] == "._append_dofs()"
                      or (w[2] == "_variables" and "equation_system" in w[1])]
                if ws:
                    ext += 1
                    _check_writer(ctx, m.rel, qn, fn)
        ctx.note(f"thorough sweep: {ext} function(s) outside {CLS} write the DOF layout state "
                 f"(each is held to the same re-cluster rule)")
        # readers elsewhere that index _variable_num_dofs directly (reported, not judged)
        for m in ctx.repo.modules("src/porepy"):
            if m.rel == ES:
                continue
            for a in ("_variable_numbers", "_variable_num_dofs"):
                if ("." + a) in m.source:
                    ctx.note(f"{m.rel} reads private layout attribute {a} directly")


# ----------------------------------------------------------------------------------------------
# mutants
# ----------------------------------------------------------------------------------------------

def _m(name, old, new, rule, control=False, count=1, file=ES):
    return dict(name=name, file=file, old=old, new=new, rule=rule, control=control, count=count)


_CL1 = ("        for grid in self.mdg.subdomains():\n"
        "            for id_, variable in self._variables.items():\n"
        "                if variable.domain == grid:\n")
_INC2 = ("                if variable.domain == intf:\n"
         "                    local_dofs = self._variable_num_dofs[self._variable_numbers[id_]]\n"
         "                    new_block_dofs.append(local_dofs)\n"
         "                    new_variable_numbers.update({id_: new_variable_counter})\n"
         "                    new_variable_counter += 1\n")

MUTANTS = [
    _m("remove-variables-no-recluster",
       "            # Update the variable clustering. This also updates _variable_num_dofs.\n            self._cluster_dofs_gridwise()\n",
       "            # Update the variable clustering. This also updates _variable_num_dofs.\n            pass\n", "R1", control=True),
    _m("seed-recluster-after-loop",
       "            # Update the variable clustering. This also updates _variable_num_dofs.\n            self._cluster_dofs_gridwise()\n",
       "        # Update the variable clustering. This also updates _variable_num_dofs.\n        self._cluster_dofs_gridwise()\n", "R1"),
    _m("seed-identify-dof-indexes-creation-order",
       "        id_ = [\n            id_ for id_, num in self._variable_numbers.items() if num == variable_number\n        ]\n"
       "        # sanity check that only 1 ID was found\n        assert len(id_) == 1, \"Failed to find unique ID corresponding to `dof`.\"\n"
       "        # find variable with the ID\n        variable = [var for _id, var in self._variables.items() if _id == id_[0]]\n"
       "        assert len(variable) == 1, \"Failed to find Variable corresponding to `dof`.\"\n        return variable[0]\n",
       "        return self.variables[variable_number]\n", "R3"),
    _m("seed-set-values-skips-empty-blocks",
       "                num_dofs = int(self._variable_num_dofs[variable_number])\n",
       "                num_dofs = int(self._variable_num_dofs[variable_number])\n                if num_dofs == 0:\n                    continue\n", "R3"),
    _m("revert-fix-additive-store-keeps-caller-dtype",
       "            data[loc][name][index] = np.array(\n                values, dtype=np.result_type(values, float)\n            )\n",
       "            data[loc][name][index] = values.copy()\n", "R5", control=True, file=ADUTILS),
    _m("revert-fix-create-variables-lookup-inside-mutation-loop",
       "        for grid, data in zip(grids, grid_data):\n            if subdomains:\n",
       "        for grid in grids:\n            data = self.mdg.subdomain_data(grid) if subdomains else self.mdg.interface_data(grid)\n            if subdomains:\n", "R1"),
    _m("create-variables-no-recluster", "        # New optimized order\n        self._cluster_dofs_gridwise()\n",
       "        # New optimized order\n        pass\n", "R1"),
    _m("subsystem-no-recluster", "        new_equation_system._cluster_dofs_gridwise()\n", "        pass\n", "R1"),
    _m("subsystem-recluster-wrong-receiver", "        new_equation_system._cluster_dofs_gridwise()\n",
       "        self._cluster_dofs_gridwise()\n", "R1"),
    _m("remove-variables-recluster-only-if-empty",
       "            # Update the variable clustering. This also updates _variable_num_dofs.\n            self._cluster_dofs_gridwise()\n",
       "            if not self._variables:\n                self._cluster_dofs_gridwise()\n", "R1"),
    _m("append-dofs-prepends-size", "            [self._variable_num_dofs, np.array([num_dofs], dtype=int)]\n",
       "            [np.array([num_dofs], dtype=int), self._variable_num_dofs]\n", "R1"),
    _m("append-dofs-number-after-insert", "        self._variable_numbers.update({variable.id: last_variable_number})\n",
       "        self._variable_numbers.update({variable.id: len(self._variable_num_dofs) + 1})\n", "R1"),
    dict(name="cluster-interfaces-before-subdomains", rule="R2", control=False, edits=[
        dict(file=ES, old="        # 1. Per subdomain, order variables\n        for grid in self.mdg.subdomains():",
             new="        # 1. Per subdomain, order variables\n        for grid in self.mdg.interfaces():", count=1),
        dict(file=ES, old="        # 2. Per interface, order variables\n        for intf in self.mdg.interfaces():",
             new="        # 2. Per interface, order variables\n        for intf in self.mdg.subdomains():", count=1)]),
    _m("cluster-variable-major-nesting", _CL1,
       "        for id_, variable in self._variables.items():\n            for grid in self.mdg.subdomains():\n"
       "                if variable.domain == grid:\n", "R2", control=True),
    _m("cluster-size-by-new-counter", "local_dofs = self._variable_num_dofs[self._variable_numbers[id_]]",
       "local_dofs = self._variable_num_dofs[new_variable_counter]", "R2", count=2),
    _m("cluster-interface-counter-not-incremented", _INC2, _INC2.replace("                    new_variable_counter += 1\n", ""), "R2"),
    _m("cluster-increment-before-use",
       "                if variable.domain == intf:\n                    local_dofs",
       "                if variable.domain == intf:\n                    new_variable_counter += 1\n                    local_dofs", "R2"),
    _m("cluster-sizes-not-replaced", "        self._variable_num_dofs = np.array(new_block_dofs, dtype=int)\n", "", "R2"),
    _m("cluster-interface-loop-dropped", "        for intf in self.mdg.interfaces():\n            for id_, variable in self._variables.items():\n",
       "        for intf in []:\n            for id_, variable in self._variables.items():\n", "R2"),
    _m("cluster-inner-by-old-numbers", _CL1,
       "        for grid in self.mdg.subdomains():\n            for id_ in self._variable_numbers:\n"
       "                variable = self._variables[id_]\n                if variable.domain == grid:\n", "R2"),
    _m("subsystem-variables-in-caller-order", "        for variable in self.variables:\n            if variable in variables:\n                # Update variables.\n",
       "        for variable in variables:\n            if variable in self.variables:\n                # Update variables.\n", "R2"),
    _m("cluster-no-domain-filter", "                if variable.domain == intf:\n                    local_dofs", "                if True:\n                    local_dofs", "R2"),
    _m("get-values-iterates-variables", "        for id_ in self._variable_numbers:\n", "        for id_ in self._variables:\n", "R3", control=True),
    _m("set-values-sorted-by-id", "        for id_, variable_number in self._variable_numbers.items():\n",
       "        for id_, variable_number in sorted(self._variable_numbers.items()):\n", "R3"),
    _m("set-values-size-by-id", "num_dofs = int(self._variable_num_dofs[variable_number])", "num_dofs = int(self._variable_num_dofs[id_])", "R3"),
    _m("set-values-cursor-not-advanced", "                dof_start = dof_end\n", "                pass\n", "R3"),
    _m("identify-dof-non-strict", "np.argmax(global_variable_dofs > dof) - 1", "np.argmax(global_variable_dofs >= dof) - 1", "R3"),
    _m("identify-dof-no-minus-one", "np.argmax(global_variable_dofs > dof) - 1", "np.argmax(global_variable_dofs > dof)", "R3"),
    _m("dofs-of-offsets-without-zero",
       "        variables = self._parse_variable_type(variables)\n        global_variable_dofs = np.hstack((0, np.cumsum(self._variable_num_dofs)))\n",
       "        variables = self._parse_variable_type(variables)\n        global_variable_dofs = np.cumsum(self._variable_num_dofs)\n", "R3"),
    _m("dofs-of-shifted-block", "                    global_variable_dofs[variable_number + 1],\n", "                    global_variable_dofs[variable_number + 2],\n", "R3"),
    _m("projection-not-sorted", "indices = np.sort(self.dofs_of(variables))", "indices = self.dofs_of(variables)", "R3"),
    _m("append-dofs-faces-times-node-multiplicity",
       "            num_dofs += variable.domain.num_faces * local_dofs.get(\n                \"faces\", 0\n            )",
       "            num_dofs += variable.domain.num_faces * local_dofs.get(\n                \"nodes\", 0\n            )", "R4"),
    _m("update-num-dofs-cells-of-faces", "num_dofs: int = grid.num_cells * dof.get(\"cells\", 0)", "num_dofs: int = grid.num_faces * dof.get(\"cells\", 0)", "R4"),
]
