"""C37 - block-diagonal inversion: index calculus of the kernels, layout agreement with the consumer, permutation algebra.

The numerical statement (the result IS the inverse) is not decidable statically; what is decided are the index-level
necessary conditions whose violation gives a wrong matrix for some block structure.  The kernels are abstractly interpreted
over a symbolic block-size vector (s0, s1, s2) and symbolic index-array descriptors (no porepy code is imported or run).

R1  permutation algebra    invert_permuted_block_diag_matrix: with G(p) = I[p, :] (ArraySlicer(domain_indices=p) @ M = M[p],
                           range_indices / .T give G(p)^-1 = G(p)^T) the matrix handed to the block inverter is the word
                           G(r) A G(c)^-1 and the returned word freely reduces to A^-1; the sizes handed on are the sizes parameter;
                           producer roles (rows/cols/sizes of generate_permutation_to_block_diag_matrix) meet the consumer roles position by position;
                           no statement overwrites the stored entries (.data) of a matrix of the chain (storage clean-up such as eliminate_zeros is allowed).
R2  block offsets          for every kernel (python, numba), storage format (csr, csc) and block ib: the output segment is
                           [sum_{j<ib} s_j^2, sum_{j<=ib} s_j^2), the index shift is sum_{j<ib} s_j, the row-major factor and both
                           dimensions of the dense block are s_ib, all blocks are visited; block_diag_index labels the same
                           segments with the column range of the same block, repeated s_ib times.
R3  transposition parity   (scatter order: major*n+minor or transposed) + (reshape order) + (order in which the inverse is flattened)
                           + (consumer: tile/repeat of the column range, csr/csc constructor) is even, in both format arms
                           (inv(M^T) = inv(M)^T makes every single transposition observable for a non-symmetric block).
R4  lock-step windows      row indices, column indices and data of a block are cut with the same non-zero window
                           [nnz(start_ib), nnz(start_ib+1)); lines expanded from the index pointer cover the lines of the same block.
R5  dispatch               both kernels and block_diag_matrix receive the same (zero-filtered) size vector and the matrix argument;
                           block_diag_matrix hands its size vector to block_diag_index and to the row-length computation.
R6  bipartite encoding     generate_permutation_to_block_diag_matrix: the (row, column) pattern comes from a format-agnostic reader (sps.find,
                           nonzero, coo) or from compressed storage of an ESTABLISHED format; column nodes are encoded with the offset they are decoded with,
                           the row/column predicates are complementary at that offset; per component the row list, the column list and
                           the block size are appended in the same iteration from the same component; all-zero rows extend all three lists;
                           the single-component shortcut returns identity permutations and one block of full size.
Not decided: the values of the inverse (np.linalg.inv, conditioning), that the input really is block diagonal with the given sizes
(np.searchsorted needs it), connected-component discovery (networkx), dtype/overflow (int32 offsets), numba compilation.
"""
from __future__ import annotations

import ast
from typing import Optional

import sympy as sp

from ..core.astutil import u, dotted, walk_local, call_name, kwarg, arg_or_kw, body_nodoc, names_in, stmts_local
from ..core.loader import AnchorError, Undecided
from ..core.report import Ctx

MO = "src/porepy/numerics/linalg/matrix_operations.py"
IDB, BDM, BDI = "invert_diagonal_blocks", "block_diag_matrix", "block_diag_index"
GEN, APPLY = "generate_permutation_to_block_diag_matrix", "invert_permuted_block_diag_matrix"
K = 3   # number of symbolic blocks

META = {
    "explanation": __doc__,
    "rule_text": "one obligation per (kernel, format, block, clause) | consumer clause | word identity | role position | dispatch argument | encoding clause",
    "trusted_base": ["python ast", "sa.core", "sympy expand as term normaliser for offsets",
                     "scipy CSR/CSC: `indices` holds the minor index of each stored entry, diff(indptr) the entries per major line; "
                     "csr_matrix((data, indices, indptr)) reads data line by line",
                     "numpy: reshape/ravel/flat default to C order; np.copyto into an (r, n) buffer tiles the source r times; cumsum, insert, searchsorted, repeat, arange",
                     "ArraySlicer(domain_indices=p) @ M == M[p]; range_indices / .T is the transpose (C36)", "inv(M^T) == inv(M)^T"],
    "assumptions": ["the input matrix is block diagonal with the given block sizes (so entries of earlier blocks precede, in storage order, those of later blocks)",
                    "offset formulas are generic in the number of blocks: checked for three symbolic block sizes",
                    "invert_diagonal_blocks returns the inverse of a block-diagonal matrix (the object of R2-R5) when used inside R1"],
    "accepted_forms": ["locals renamed, temporaries, statements reordered (environment-based abstract interpretation)",
                       "per-block code as a closure driven by map/np.fromiter, a for loop over range/prange, or a comprehension",
                       "sizes with or without a leading zero (np.insert / [0] + list / np.hstack), size*size or np.square, index with ib or ib+1 accordingly",
                       "scatter through a flat index major*n+minor (either operand order) or a two-index store into a dense block",
                       "ravel / flatten / .flat / reshape(-1), .T anywhere in the chain, order= keywords", "np.diff(indptr) or the difference of two shifted slices",
                       "slicers or direct fancy indexing (M[p], M[:, p], np.ix_) in the permuted inverter; .T or .transpose(); format conversions"],
    "technique": "abstract interpretation over symbolic block offsets and index-array descriptors; parity (Z2) calculus of transpositions; free-group word reduction for permutations",
}
MIN_INSTANCES = {"R1": 6, "R2": 86, "R3": 4, "R4": 36, "R5": 8, "R6": 8}

S = [sp.Symbol(f"s{j}", integer=True, positive=True) for j in range(K)]
NNZ = sp.Function("nnz")          # position in the storage arrays of the first entry of the line/block starting at the argument
NP = sp.Symbol("len_indptr", integer=True, positive=True)
NN = sp.Symbol("N", integer=True, positive=True)


def _eq(a, b) -> bool:
    return sp.expand(sp.sympify(a) - sp.sympify(b)) == 0


def O1(ib):
    return sum(S[:ib], sp.Integer(0))


def O2(ib):
    return sum((s ** 2 for s in S[:ib]), sp.Integer(0))


# ------------------------------------------------------------------------------------------------------
# descriptors
# ------------------------------------------------------------------------------------------------------

class Unknown:
    def __init__(self, why=""):
        self.why = why


class D:
    """index-array / array descriptor"""

    def __init__(self, kind: str, **kw):
        self.kind = kind
        self.__dict__.update(kw)

    def __repr__(self):
        return f"{self.kind}({', '.join(f'{k}={v!r}' for k, v in self.__dict__.items() if k != 'kind')})"


class Closure:
    def __init__(self, fn: ast.FunctionDef, ev: "Ev"):
        self.fn, self.ev = fn, ev


class _Return(Exception):
    def __init__(self, v):
        self.value = v


def _isnum(v) -> bool:
    return isinstance(v, (int, sp.Expr)) and not isinstance(v, bool)


def _role(x) -> Optional[str]:
    """'major' / 'minor' of a (shifted, windowed) per-entry index array"""
    while isinstance(x, D) and x.kind in ("shift", "win", "cast"):
        x = x.base
    if isinstance(x, D) and x.kind == "idx":
        return x.role
    if isinstance(x, D) and x.kind == "rep":
        return "major"
    return None


class Ev:
    def __init__(self, where: str, fmt: Optional[str], env: Optional[dict] = None, parent: Optional["Ev"] = None):
        self.where, self.fmt = where, fmt
        self.env: dict = dict(env or {})
        self.parent = parent
        self.root = parent.root if parent is not None else self
        if parent is None:
            self.blocks: list[list] = []     # events per visited block
            self.cur: Optional[list] = None
            self.loose: list = []

    # ---- environment ------------------------------------------------------------------------------
    def lookup(self, name: str):
        e = self
        while e is not None:
            if name in e.env:
                return e.env[name]
            e = e.parent
        raise self.und(f"unknown name {name}")

    def und(self, msg: str):
        return Undecided(f"{MO}:{self.where}: {msg}")

    def event(self, ev: tuple) -> None:
        (self.root.cur if self.root.cur is not None else self.root.loose).append(ev)

    # ---- expressions ------------------------------------------------------------------------------
    def ev(self, e: ast.expr):
        if isinstance(e, ast.Constant):
            if isinstance(e.value, bool) or e.value is None or isinstance(e.value, str):
                return e.value
            if isinstance(e.value, int):
                return sp.Integer(e.value)
            if isinstance(e.value, float):
                return sp.nsimplify(e.value, rational=True)
            return Unknown("constant")
        if isinstance(e, ast.Name):
            return self.lookup(e.id)
        if isinstance(e, ast.List):
            vals = [self.ev(x) for x in e.elts]
            return vals
        if isinstance(e, ast.Tuple):
            out = []
            for x in e.elts:
                if isinstance(x, ast.Starred):
                    v = self.ev(x.value)
                    out += list(v) if isinstance(v, (tuple, list)) else [Unknown("starred")]
                else:
                    out.append(self.ev(x))
            return tuple(out)
        if isinstance(e, ast.UnaryOp):
            v = self.ev(e.operand)
            if isinstance(e.op, ast.Not):
                return (not v) if isinstance(v, bool) else Unknown("not")
            if isinstance(e.op, ast.USub) and _isnum(v):
                return -v
            return Unknown("unary")
        if isinstance(e, ast.BoolOp):
            vals = [self.ev(x) for x in e.values]
            if all(isinstance(v, bool) for v in vals):
                return all(vals) if isinstance(e.op, ast.And) else any(vals)
            return Unknown("boolop")
        if isinstance(e, ast.Compare):
            if len(e.ops) == 1 and isinstance(e.ops[0], (ast.Is, ast.IsNot)):
                l, r = self.ev(e.left), self.ev(e.comparators[0])
                if l is None or r is None:
                    res = l is None and r is None
                    return res if isinstance(e.ops[0], ast.Is) else not res
            return Unknown("compare")
        if isinstance(e, ast.BinOp):
            return self.binop(e)
        if isinstance(e, ast.Attribute):
            return self.attribute(e)
        if isinstance(e, ast.Subscript):
            return self.subscript(e)
        if isinstance(e, ast.Call):
            return self.call(e)
        if isinstance(e, ast.ListComp) and len(e.generators) == 1 and not e.generators[0].ifs:
            g = e.generators[0]
            out = []
            for v in self.items(g.iter):
                sub = Ev(self.where, self.fmt, {g.target.id: v} if isinstance(g.target, ast.Name) else {}, self)
                out.append(sub.ev(e.elt))
            return out
        return Unknown(type(e).__name__)

    def binop(self, e: ast.BinOp):
        l, r = self.ev(e.left), self.ev(e.right)
        op = e.op
        if isinstance(l, list) and isinstance(r, list):
            if isinstance(op, ast.Add) and (isinstance(e.left, ast.List) or isinstance(e.right, ast.List) or self.is_pylist(e.left) or self.is_pylist(e.right)):
                return l + r     # python list concatenation ([0] + list(size))
            if len(l) == len(r) and all(_isnum(x) for x in l + r):
                f = self.arith(op)
                return [f(a, b) for a, b in zip(l, r)] if f else Unknown("op")
            return Unknown("list op")
        if isinstance(l, list) and _isnum(r) and all(_isnum(x) for x in l):
            f = self.arith(op)
            return [f(a, r) for a in l] if f else Unknown("op")
        if isinstance(r, list) and _isnum(l) and all(_isnum(x) for x in r):
            f = self.arith(op)
            return [f(l, a) for a in r] if f else Unknown("op")
        if _isnum(l) and _isnum(r):
            f = self.arith(op)
            return f(l, r) if f else Unknown("op")
        # descriptors
        if isinstance(op, ast.Sub) and isinstance(l, D) and isinstance(r, D) and l.kind == "win" and r.kind == "win":
            if isinstance(l.base, D) and l.base.kind == "indptr" and l.base is r.base and _eq(l.lo, 1) and _eq(r.lo, 0) and _eq(l.hi, NP) and _eq(r.hi, NP - 1):
                return D("counts")
            return Unknown("difference of windows")
        if isinstance(op, ast.Sub) and isinstance(l, D) and _isnum(r):
            return D("shift", base=l, c=r)
        if isinstance(op, ast.Add) and isinstance(l, D) and _isnum(r):
            return D("shift", base=l, c=-r)
        if isinstance(op, ast.Mult) and ((isinstance(l, D) and _isnum(r)) or (isinstance(r, D) and _isnum(l))):
            d_, n_ = (l, r) if isinstance(l, D) else (r, l)
            return D("scaled", base=d_, n=n_)
        if isinstance(op, ast.Add) and isinstance(l, D) and isinstance(r, D):
            a, b = (l, r) if l.kind == "scaled" else (r, l)
            if a.kind == "scaled" and b.kind != "scaled":
                return D("lin", a=a.base, n=a.n, b=b)
        return Unknown(f"binop {u(e)[:40]}")

    def is_pylist(self, e: ast.expr) -> bool:
        return isinstance(e, ast.Call) and isinstance(e.func, ast.Name) and e.func.id == "list"

    @staticmethod
    def arith(op):
        return {ast.Add: lambda a, b: a + b, ast.Sub: lambda a, b: a - b, ast.Mult: lambda a, b: a * b, ast.Pow: lambda a, b: a ** b,
                ast.FloorDiv: lambda a, b: sp.floor(a / b), ast.Div: lambda a, b: a / b}.get(type(op))

    def attribute(self, e: ast.Attribute):
        base = self.ev(e.value)
        a = e.attr
        if isinstance(base, D) and base.kind == "matrix":
            if a == "indices":
                return D("idx", role="minor")
            if a == "indptr":
                return self.root.env.setdefault("__indptr__", D("indptr"))
            if a == "data":
                return D("data")
            if a == "shape":
                return (NN, NN)
            return Unknown(f"matrix.{a}")
        if a == "size":
            if isinstance(base, list):
                return sp.Integer(len(base))
            if isinstance(base, D) and base.kind == "indptr":
                return NP
            return Unknown("size")
        if a == "shape":
            if isinstance(base, D) and base.kind == "rng":
                return (base.hi - base.lo,)
            if isinstance(base, list):
                return (sp.Integer(len(base)),)
            return Unknown("shape")
        if a == "flat" and isinstance(base, D):
            return D("flatten", base=base, order="C")
        if a == "T" and isinstance(base, D):
            return D("transpose", base=base)
        return Unknown(f"attribute {a}")

    def bounds(self, sl: ast.Slice, length=None):
        lo = self.ev(sl.lower) if sl.lower is not None else sp.Integer(0)
        hi = self.ev(sl.upper) if sl.upper is not None else length
        if sl.step is not None or not _isnum(lo) or hi is None or not _isnum(hi):
            return None
        if length is not None and hi.is_number and hi < 0:
            hi = length + hi
        return lo, hi

    def subscript(self, e: ast.Subscript):
        base = self.ev(e.value)
        sl = e.slice
        if isinstance(base, (list, tuple)):
            if isinstance(sl, ast.Slice):
                b = self.bounds(sl, sp.Integer(len(base)))
                if b is None or not (b[0].is_number and b[1].is_number):
                    return Unknown("slice of list")
                return base[int(b[0]):int(b[1])]
            i = self.ev(sl)
            if _isnum(i) and sp.sympify(i).is_number:
                i = int(i)
                if not -len(base) <= i < len(base):
                    raise self.und(f"index {i} out of range in {u(e)} (length {len(base)})")
                return base[i]
            if isinstance(i, list) and all(_isnum(t) and sp.sympify(t).is_number for t in i):
                if not all(-len(base) <= int(t) < len(base) for t in i):
                    raise self.und(f"index out of range in {u(e)}")
                return [base[int(t)] for t in i]
            return Unknown("list index")
        if isinstance(base, D):
            if isinstance(sl, ast.Slice):
                length = NP if base.kind == "indptr" else None
                b = self.bounds(sl, length)
                if b is None:
                    return Unknown("slice bounds")
                if base.kind == "out":
                    return D("view", out=base, lo=b[0], hi=b[1], is_view=True)
                return D("win", base=base, lo=b[0], hi=b[1])
            i = self.ev(sl)
            if isinstance(i, D) and i.kind == "rng" and base.kind == "out":
                return D("view", out=base, lo=i.lo, hi=i.hi, is_view=False)
            if isinstance(i, D) and i.kind == "slc":
                if base.kind == "out":
                    return D("view", out=base, lo=i.lo, hi=i.hi, is_view=True)
                return D("win", base=base, lo=i.lo, hi=i.hi)
            return Unknown(f"subscript {u(e)[:40]}")
        return Unknown(f"subscript {u(e)[:40]}")

    def items(self, it: ast.expr) -> list:
        if isinstance(it, ast.Call) and call_name(it) in ("range", "prange") and len(it.args) == 1:
            n = self.ev(it.args[0])
            if _isnum(n) and sp.sympify(n).is_number:
                return [sp.Integer(i) for i in range(int(n))]
            raise self.und(f"loop bound {u(it)} is not a known number of blocks")
        v = self.ev(it)
        if isinstance(v, list):
            return v
        raise self.und(f"iteration over {u(it)[:40]}")

    def call_closure(self, c: Closure, args: list, kwargs: dict):
        fn = c.fn
        params = [a.arg for a in fn.args.args]
        env = {}
        for p, v in zip(params, args):
            env[p] = v
        for k, v in kwargs.items():
            if k in params:
                env[k] = v
        if len(env) != len(params):
            raise self.und(f"arguments of {fn.name}")
        sub = Ev(f"{self.where}.{fn.name}" if fn.name not in self.where else self.where, self.fmt, env, c.ev)
        return sub.run(fn)

    def per_block(self, c, rng: ast.expr):
        for ib in self.items(rng):
            self.root.blocks.append([])
            self.root.cur = self.root.blocks[-1]
            self.root.cur.append(("block", ib))
            try:
                if isinstance(c, Closure):
                    self.call_closure(c, [ib], {})
                else:
                    c(ib)
            finally:
                self.root.cur = None

    def call(self, e: ast.Call):
        d = dotted(e.func) or ""
        nm = call_name(e)
        if isinstance(e.func, ast.Name):
            try:
                tgt = self.lookup(e.func.id)
            except Undecided:
                tgt = None
            if isinstance(tgt, Closure):
                return self.call_closure(tgt, [self.ev(a) for a in e.args], {k.arg: self.ev(k.value) for k in e.keywords})
        if d in ("sps.isspmatrix_csr", "sps.isspmatrix_csc", "isspmatrix_csr", "isspmatrix_csc") and self.fmt is not None:
            return (self.fmt == "csr") == d.endswith("csr")
        if d == "list" and len(e.args) == 1:
            v = self.ev(e.args[0])
            return list(v) if isinstance(v, list) else Unknown("list()")
        if d in ("np.array", "np.asarray") and e.args:
            v = self.ev(e.args[0])
            return v if isinstance(v, list) else Unknown("array")
        if d == "np.cumsum" and e.args:
            v = self.ev(e.args[0])
            if isinstance(v, list) and all(_isnum(x) for x in v):
                acc, out = sp.Integer(0), []
                for x in v:
                    acc = acc + x
                    out.append(acc)
                return out
            return Unknown("cumsum")
        if d == "np.square" and len(e.args) == 1:
            v = self.ev(e.args[0])
            if isinstance(v, list):
                return [x ** 2 for x in v]
            return v ** 2 if _isnum(v) else Unknown("square")
        if d == "np.insert" and len(e.args) == 3:
            v, pos, val = (self.ev(a) for a in e.args)
            if isinstance(v, list) and _isnum(pos) and sp.sympify(pos).is_number and _isnum(val):
                p = int(pos)
                return v[:p] + [val] + v[p:]
            return Unknown("insert")
        if d == "np.hstack" and len(e.args) == 1:
            parts = self.ev(e.args[0])
            out = []
            for p in parts if isinstance(parts, (tuple, list)) else [parts]:
                if isinstance(p, list):
                    out += p
                elif _isnum(p):
                    out.append(p)
                elif isinstance(p, D) and p.kind == "zeros1":
                    out.append(sp.Integer(0))
                else:
                    return Unknown("hstack")
            return out
        if d == "np.searchsorted" and len(e.args) == 2:
            arr, v = self.ev(e.args[0]), self.ev(e.args[1])
            if isinstance(v, list) and isinstance(arr, D) and arr.kind == "idx" and arr.role == "minor":
                return [NNZ(x) for x in v]
            if isinstance(v, list):
                return [sp.Function("pos_in_" + (arr.kind if isinstance(arr, D) else "unknown"))(x) for x in v]
            return Unknown("searchsorted")
        if d == "slice" and len(e.args) == 2:
            a = [self.ev(x) for x in e.args]
            if _isnum(a[0]) and _isnum(a[1]):
                return D("slc", lo=a[0], hi=a[1])
            return Unknown("slice")
        if nm == "getnnz" and isinstance(e.func, ast.Attribute):
            base = self.ev(e.func.value)
            ax = arg_or_kw(e, 0, "axis")
            if isinstance(base, D) and base.kind == "matrix" and isinstance(ax, ast.Constant) and ax.value in (0, 1) and self.fmt is not None:
                per = "row" if ax.value == 1 else "column"
                major = "row" if self.fmt == "csr" else "column"
                return D("counts") if per == major else D("counts", wrong=f"the number of stored entries per {per} (getnnz(axis={ax.value})), but a {self.fmt} matrix stores its entries {major} by {major}")
            return Unknown("getnnz")
        if d == "np.arange":
            a = [self.ev(x) for x in e.args]
            if len(a) == 1 and _isnum(a[0]):
                return D("rng", lo=sp.Integer(0), hi=a[0])
            if len(a) == 2 and _isnum(a[0]) and _isnum(a[1]):
                return D("rng", lo=a[0], hi=a[1])
            return Unknown("arange")
        if d == "np.diff" and len(e.args) == 1:
            v = self.ev(e.args[0])
            return D("counts") if isinstance(v, D) and v.kind == "indptr" else Unknown("diff")
        if d == "np.repeat" and len(e.args) == 2:
            r, c = self.ev(e.args[0]), self.ev(e.args[1])
            if isinstance(r, D) and r.kind == "rng":
                if isinstance(c, D) and c.kind == "counts" and _eq(r.lo, 0) and _eq(r.hi, NN):
                    return D("idx", role="major", wrong=getattr(c, "wrong", None))
                if isinstance(c, D) and c.kind == "win" and isinstance(c.base, D) and c.base.kind == "counts":
                    return D("rep", lo=r.lo, hi=r.hi, clo=c.lo, chi=c.hi, wrong=getattr(c.base, "wrong", None))
                if _isnum(c):
                    return D("repeat_each", rng=r, reps=c)
            return Unknown("repeat")
        if d == "np.tile" and len(e.args) == 2:
            r, c = self.ev(e.args[0]), self.ev(e.args[1])
            if isinstance(r, D) and r.kind == "rng" and _isnum(c):
                return D("tiled", rng=r, reps=c)
            return Unknown("tile")
        if d in ("np.zeros",) and e.args:
            v = self.ev(e.args[0])
            if _isnum(v):
                if _eq(v, 1):
                    return D("zeros1")
                return D("out", total=v)
            if isinstance(v, tuple) and len(v) == 2 and all(_isnum(t) for t in v):
                return D("dense0", n1=v[0], n2=v[1])
            return Unknown("zeros")
        if d == "np.empty" and e.args:
            shp = e.args[0]
            if isinstance(shp, ast.Tuple) and len(shp.elts) == 2 and isinstance(shp.elts[1], ast.Starred):
                reps = self.ev(shp.elts[0])
                src = self.ev(shp.elts[1].value)
                if _isnum(reps) and isinstance(src, tuple) and len(src) == 1:
                    return D("emptytile", reps=reps, width=src[0])
            return Unknown("empty")
        if d == "np.copyto" and len(e.args) == 2:
            dst, src = self.ev(e.args[0]), self.ev(e.args[1])
            if isinstance(dst, D) and dst.kind == "emptytile" and isinstance(src, D) and src.kind == "rng" and isinstance(e.args[0], ast.Name):
                if not _eq(dst.width, src.hi - src.lo):
                    raise self.und("copyto into a buffer of a different width")
                self.assign_name(e.args[0].id, D("tiled", rng=src, reps=dst.reps))
                return None
            return Unknown("copyto")
        if d in ("np.reshape",) and len(e.args) >= 2:
            return self.reshape(self.ev(e.args[0]), self.ev(e.args[1]), arg_or_kw(e, 2, "order"), e)
        if d == "np.linalg.inv" and len(e.args) == 1:
            v = self.ev(e.args[0])
            return D("inv", base=v) if isinstance(v, D) else Unknown("inv")
        if d in ("np.ravel",) and e.args:
            v = self.ev(e.args[0])
            return self.flatten(v, arg_or_kw(e, 1, "order"), e)
        if d in ("np.transpose",) and len(e.args) == 1:
            v = self.ev(e.args[0])
            return D("transpose", base=v) if isinstance(v, D) else Unknown("transpose")
        if d == "np.fromiter" and e.args and isinstance(e.args[0], ast.Call) and call_name(e.args[0]) == "map" and len(e.args[0].args) == 2:
            f = self.ev(e.args[0].args[0])
            if isinstance(f, Closure):
                self.per_block(f, e.args[0].args[1])
                return Unknown("fromiter result")
            return Unknown("fromiter")
        if d in ("int", "np.int32", "np.int64") and len(e.args) == 1:
            return self.ev(e.args[0])
        if d == "np.sum" and len(e.args) == 1:
            v = self.ev(e.args[0])
            return sum(v, sp.Integer(0)) if isinstance(v, list) and all(_isnum(x) for x in v) else Unknown("sum")
        # methods
        if isinstance(e.func, ast.Attribute):
            base = self.ev(e.func.value)
            if nm == "astype" or (nm == "copy" and not e.args):
                if isinstance(base, D) and base.kind in ("rep", "idx", "win", "shift"):
                    return D("cast", base=base) if nm == "astype" else base
                return base
            if nm == "reshape" and isinstance(base, D):
                shp = self.ev(e.args[0]) if len(e.args) == 1 else tuple(self.ev(a) for a in e.args)
                return self.reshape(base, shp, kwarg(e, "order"), e)
            if nm in ("ravel", "flatten") and isinstance(base, D):
                return self.flatten(base, arg_or_kw(e, 0, "order"), e)
            if nm == "transpose" and isinstance(base, D) and not e.args:
                return D("transpose", base=base)
        return Unknown(f"call {u(e)[:40]}")

    def order(self, oa, e) -> str:
        if oa is None:
            return "C"
        if isinstance(oa, ast.Constant) and oa.value in ("C", "F"):
            return oa.value
        raise self.und(f"memory order of {u(e)[:50]}")

    def reshape(self, v, shp, oa, e):
        if isinstance(v, D) and isinstance(shp, tuple) and len(shp) == 2 and all(_isnum(t) for t in shp):
            return D("dense", flat=v, n1=shp[0], n2=shp[1], order=self.order(oa, e))
        if isinstance(v, D) and ((_isnum(shp) and _eq(shp, -1)) or (isinstance(shp, tuple) and len(shp) == 1 and _isnum(shp[0]) and _eq(shp[0], -1))):
            return D("flatten", base=v, order=self.order(oa, e))
        return Unknown("reshape")

    def flatten(self, v, oa, e):
        if isinstance(v, D):
            return D("flatten", base=v, order=self.order(oa, e))
        return Unknown("ravel")

    # ---- statements -------------------------------------------------------------------------------
    def assign_name(self, name: str, v) -> None:
        e = self
        while e is not None:
            if name in e.env:
                e.env[name] = v
                return
            e = e.parent
        self.env[name] = v

    def run(self, fn: ast.FunctionDef):
        try:
            self.exec(body_nodoc(fn))
        except _Return as r:
            return r.value
        return None

    def exec(self, stmts: list) -> None:
        for s in stmts:
            self.stmt(s)

    def stmt(self, s: ast.stmt) -> None:
        if isinstance(s, (ast.Pass, ast.Assert, ast.Import, ast.ImportFrom)):
            return
        if isinstance(s, ast.FunctionDef):
            self.env[s.name] = Closure(s, self)
            return
        if isinstance(s, ast.Expr):
            if isinstance(s.value, ast.Call):
                # statement-level driver forms: [f(ib) for ...] is handled by ev(ListComp) only for values; calls are evaluated for their events
                self.ev(s.value)
            return
        if isinstance(s, (ast.Assign, ast.AnnAssign)):
            if s.value is None:
                return
            val = self.ev(s.value)
            for t in (s.targets if isinstance(s, ast.Assign) else [s.target]):
                self.store(t, val, s)
            return
        if isinstance(s, ast.AugAssign):
            self.store(s.target, Unknown("augmented"), s)
            return
        if isinstance(s, ast.Return):
            raise _Return(self.ev(s.value) if s.value is not None else None)
        if isinstance(s, ast.If):
            t = self.ev(s.test)
            if isinstance(t, bool):
                self.exec(s.body if t else s.orelse)
                return
            if all(isinstance(b, ast.Raise) for b in s.body) and not s.orelse:
                return
            raise self.und(f"data-dependent branch `if {u(s.test)[:50]}`")
        if isinstance(s, ast.For):
            # a loop over range/prange(number of blocks) whose body handles one block
            if isinstance(s.iter, ast.Call) and call_name(s.iter) in ("range", "prange") and isinstance(s.target, ast.Name):
                def body(ib, s=s):
                    self.env[s.target.id] = ib
                    self.exec(s.body)
                if self.root.cur is None:
                    self.per_block(body, s.iter)
                else:
                    for ib in self.items(s.iter):
                        body(ib)
                return
            raise self.und(f"loop `for {u(s.target)} in {u(s.iter)[:40]}`")
        if isinstance(s, ast.Raise):
            raise self.und("unconditional raise on the analysed path")
        if isinstance(s, ast.Try):
            self.exec(s.body)
            return
        raise self.und(f"statement {type(s).__name__}")

    def store(self, t: ast.expr, val, s: ast.stmt) -> None:
        if isinstance(t, ast.Name):
            self.env[t.id] = val
            return
        if isinstance(t, (ast.Tuple, ast.List)):
            vals = list(val) if isinstance(val, (tuple, list)) and len(val) == len(t.elts) else [Unknown("unpack")] * len(t.elts)
            for x, v in zip(t.elts, vals):
                self.store(x, v, s)
            return
        if isinstance(t, ast.Subscript):
            base = self.ev(t.value)
            sl = t.slice
            if isinstance(base, D) and base.kind == "out":
                if isinstance(sl, ast.Slice):
                    b = self.bounds(sl)
                    if b is None:
                        raise self.und(f"output window {u(t)[:50]}")
                    self.event(("out", base, b[0], b[1], val, s))
                    return
                i = self.ev(sl)
                if isinstance(i, D) and i.kind in ("rng", "slc"):
                    self.event(("out", base, i.lo, i.hi, val, s))
                    return
                raise self.und(f"store into the output array through {u(sl)[:40]}")
            if isinstance(base, D) and base.kind in ("view", "dense0"):
                if isinstance(sl, ast.Tuple) and len(sl.elts) == 2:
                    self.event(("scatter2", base, self.ev(sl.elts[0]), self.ev(sl.elts[1]), val, s))
                else:
                    self.event(("scatter", base, self.ev(sl), val, s))
                return
            return
        if isinstance(t, ast.Attribute):
            return
        raise self.und(f"store target {u(t)[:40]}")


# ------------------------------------------------------------------------------------------------------
# R2 / R3 / R4: kernels
# ------------------------------------------------------------------------------------------------------

BASE_ENV = {"np": Unknown("module"), "sps": Unknown("module"), "numba": Unknown("module"), "pp": Unknown("module")}


def _strip(v):
    """(parity, core) of a chain of flatten / transpose wrappers"""
    p = 0
    while isinstance(v, D) and v.kind in ("flatten", "transpose"):
        p += 1 if v.kind == "transpose" or v.order == "F" else 0
        v = v.base
    return p, v


def _unshift(x):
    c = None
    if isinstance(x, D) and x.kind == "shift":
        c, x = x.c, x.base
    while isinstance(x, D) and x.kind == "cast":
        x = x.base
    return c, x


def _kernel_parity(ctx: Ctx, mod, qual: str, fn: ast.FunctionDef, fmt: str) -> Optional[int]:
    params = [a.arg for a in fn.args.args]
    if len(params) != 2:
        raise AnchorError(f"{MO}:{qual}: kernel signature changed")
    ev = Ev(qual, fmt, {**BASE_ENV, params[0]: D("matrix"), params[1]: list(S)})
    res = ev.run(fn)
    tag = f"{qual.split('.')[-1]} [{fmt}]"
    visited = [b[0][1] for b in ev.blocks]
    ctx.check("R2", [int(v) for v in visited] == list(range(K)), mod, qual, fn, f"[{fmt}] the kernel visits blocks {visited} of {K}",
              construct=f"{tag}: all blocks visited", desc=f"[{fmt}] every block is visited once")
    if not ev.blocks:
        raise Undecided(f"{MO}:{qual}: no per-block code was recognised")
    major_is = "row" if fmt == "csr" else "col"
    parities = set()
    for blk in ev.blocks:
        ib = int(blk[0][1])
        outs = [e for e in blk if e[0] == "out"]
        if len(outs) != 1:
            raise Undecided(f"{MO}:{qual}: block {ib}: expected one store into the output array, found {len(outs)}")
        _, outarr, lo, hi, val, st = outs[0]
        if isinstance(res, D) and res.kind == "out" and outarr is not res:
            raise Undecided(f"{MO}:{qual}: the array written per block is not the array returned")
        ok = _eq(lo, O2(ib)) and _eq(hi, O2(ib + 1))
        ctx.check("R2", ok, mod, qual, st, f"[{fmt}] block {ib}: the inverse is written to [{lo}, {hi}) but the flattened inverse of block {ib} occupies [{O2(ib)}, {O2(ib + 1)})",
                  construct=f"{tag}: output segment of block {ib}", desc=f"[{fmt}] block {ib}: output segment [{O2(ib)}, {O2(ib + 1)})")
        p_out, core = _strip(val)
        if not (isinstance(core, D) and core.kind == "inv"):
            raise Undecided(f"{MO}:{qual}: block {ib}: the stored value is not a flattened np.linalg.inv(...)")
        p_in, dense = _strip(core.base)
        if isinstance(dense, D) and dense.kind == "dense":
            flat, p_shape = dense.flat, (1 if dense.order == "F" else 0)
            n1, n2 = dense.n1, dense.n2
        elif isinstance(dense, D) and dense.kind == "dense0":
            flat, p_shape, n1, n2 = dense, 0, dense.n1, dense.n2
        else:
            raise Undecided(f"{MO}:{qual}: block {ib}: the inverted object is not a reshaped flat block / dense block")
        ok = _eq(n1, S[ib]) and _eq(n2, S[ib])
        ctx.check("R2", ok, mod, qual, st, f"[{fmt}] block {ib}: the dense block is {n1} x {n2}, block {ib} is {S[ib]} x {S[ib]}",
                  construct=f"{tag}: dense shape of block {ib}", desc=f"[{fmt}] block {ib}: dense block is s{ib} x s{ib}")
        if isinstance(flat, D) and flat.kind == "view":
            ok = _eq(flat.lo, O2(ib)) and _eq(flat.hi, O2(ib + 1))
            ctx.check("R2", ok, mod, qual, st, f"[{fmt}] block {ib}: the scratch segment is [{flat.lo}, {flat.hi}) of the output, the block's own segment is [{O2(ib)}, {O2(ib + 1)})",
                      construct=f"{tag}: scratch segment of block {ib}", desc=f"[{fmt}] block {ib}: scratch segment is the block's own")
        elif isinstance(flat, D) and flat.kind == "out":
            ctx.check("R2", _eq(flat.total, S[ib] ** 2), mod, qual, st, f"[{fmt}] block {ib}: scratch of {flat.total} entries for a block of {S[ib]}^2",
                      construct=f"{tag}: scratch segment of block {ib}")
        sc = [e for e in blk if e[0] in ("scatter", "scatter2") and e[1] is flat]
        if len(sc) != 1:
            raise Undecided(f"{MO}:{qual}: block {ib}: expected one scatter of the matrix entries into the block scratch, found {len(sc)}")
        if sc[0][0] == "scatter":
            _, _, index, src, sst = sc[0]
            if not (isinstance(index, D) and index.kind == "lin"):
                raise Undecided(f"{MO}:{qual}: block {ib}: scatter index `{u(sst)[:60]}` is not of the form first*n + second")
            first, second, n = index.a, index.b, index.n
            ok = _eq(n, S[ib])
            ctx.check("R2", ok, mod, qual, sst, f"[{fmt}] block {ib}: flat position first*{n} + second, but the block has {S[ib]} entries per line "
                      f"(the size vector is read at the wrong position)", construct=f"{tag}: line length of block {ib}", desc=f"[{fmt}] block {ib}: flat position uses line length s{ib}")
        else:
            _, _, first, second, src, sst = sc[0]
        roles = []
        for nm, opnd in (("first", first), ("second", second)):
            c, core_i = _unshift(opnd)
            r = _role(core_i)
            if r is None:
                raise Undecided(f"{MO}:{qual}: block {ib}: cannot tell whether the {nm} scatter index `{opnd!r}` holds row or column indices")
            roles.append(r)
            root = core_i
            while isinstance(root, D) and root.kind in ("win", "cast", "shift"):
                root = root.base
            why = getattr(root, "wrong", None)
            if why:
                ctx.check("R4", False, mod, qual, sst, f"[{fmt}] block {ib}: the line index of each stored entry is obtained by repeating the line numbers with {why}: "
                          f"the expanded indices do not follow the storage order (invisible for full blocks, where both counts agree)",
                          construct=f"{tag}: entry counts used to expand the {r} index")
            ok = c is not None and _eq(c, O1(ib))
            ctx.check("R2", ok, mod, qual, sst, f"[{fmt}] block {ib}: the global {r} indices are shifted by {c} to local ones; block {ib} starts at {O1(ib)}",
                      construct=f"{tag}: shift of the {r} index of block {ib}", desc=f"[{fmt}] block {ib}: {r} index shifted by the block start")
            if core_i.kind == "win":
                ok = _eq(core_i.lo, NNZ(O1(ib))) and _eq(core_i.hi, NNZ(O1(ib + 1)))
                ctx.check("R4", ok, mod, qual, sst, f"[{fmt}] block {ib}: the {r} indices are cut with [{core_i.lo}, {core_i.hi}); the stored entries of block {ib} are "
                          f"[{NNZ(O1(ib))}, {NNZ(O1(ib + 1))})", construct=f"{tag}: window of the {r} index of block {ib}", desc=f"[{fmt}] block {ib}: {r} indices cut with the block's non-zero window")
            elif core_i.kind == "rep":
                ok = all(_eq(a, b) for a, b in ((core_i.lo, O1(ib)), (core_i.hi, O1(ib + 1)), (core_i.clo, O1(ib)), (core_i.chi, O1(ib + 1))))
                ctx.check("R4", ok, mod, qual, sst, f"[{fmt}] block {ib}: lines [{core_i.lo}, {core_i.hi}) are expanded with the entry counts of lines [{core_i.clo}, {core_i.chi}); "
                          f"block {ib} consists of lines [{O1(ib)}, {O1(ib + 1)})", construct=f"{tag}: window of the {r} index of block {ib}",
                          desc=f"[{fmt}] block {ib}: {r} indices expanded from the block's own lines")
            else:
                raise Undecided(f"{MO}:{qual}: block {ib}: the {nm} scatter index is a whole-matrix array")
        if isinstance(src, D) and src.kind == "win" and isinstance(src.base, D) and src.base.kind == "data":
            ok = _eq(src.lo, NNZ(O1(ib))) and _eq(src.hi, NNZ(O1(ib + 1)))
            ctx.check("R4", ok, mod, qual, sst, f"[{fmt}] block {ib}: the values are cut with [{src.lo}, {src.hi}); the stored entries of block {ib} are [{NNZ(O1(ib))}, {NNZ(O1(ib + 1))})",
                      construct=f"{tag}: window of the data of block {ib}", desc=f"[{fmt}] block {ib}: data cut with the block's non-zero window")
        else:
            raise Undecided(f"{MO}:{qual}: block {ib}: the scattered values are not a window of the matrix data")
        if set(roles) != {"major", "minor"}:
            ctx.check("R3", False, mod, qual, sst, f"[{fmt}] block {ib}: both scatter indices are {roles[0]} indices", construct=f"{tag}: scatter uses one row and one column index")
            return None
        first_is = major_is if roles[0] == "major" else ("col" if major_is == "row" else "row")
        parities.add(((0 if first_is == "row" else 1) + p_shape + p_in + p_out) % 2)
    if len(parities) != 1:
        raise Undecided(f"{MO}:{qual}: blocks are laid out differently")
    return parities.pop()


def _consumer(ctx: Ctx, mod) -> int:
    """block_diag_matrix / block_diag_index: segments, column ranges, layout parity"""
    fi = mod.func(BDI)
    params = [a.arg for a in fi.args.args]
    if len(params) != 2:
        raise AnchorError(f"{MO}:{BDI}: signature changed")
    ev = Ev(BDI, None, {**BASE_ENV, params[0]: list(S), params[1]: None})
    res = ev.run(fi)
    visited = [int(b[0][1]) for b in ev.blocks]
    ctx.check("R2", visited == list(range(K)), mod, BDI, fi, f"index generation visits blocks {visited} of {K}", construct=f"{BDI}: all blocks visited")
    par = set()
    for blk in ev.blocks:
        ib = int(blk[0][1])
        outs = [e for e in blk if e[0] == "out"]
        if len(outs) != 1:
            raise Undecided(f"{MO}:{BDI}: block {ib}: expected one store into the index array")
        _, outarr, lo, hi, val, st = outs[0]
        if isinstance(res, D) and res.kind == "out" and outarr is not res:
            raise Undecided(f"{MO}:{BDI}: the array written per block is not the array returned")
        ok = _eq(lo, O2(ib)) and _eq(hi, O2(ib + 1))
        ctx.check("R2", ok, mod, BDI, st, f"block {ib}: indices are written to [{lo}, {hi}); the values of block {ib} occupy [{O2(ib)}, {O2(ib + 1)})", construct=f"{BDI}: segment of block {ib}")
        p, core = _strip(val)
        if isinstance(core, D) and core.kind in ("tiled", "repeat_each"):
            rng, reps = core.rng, core.reps
            p += 1 if core.kind == "repeat_each" else 0
        else:
            raise Undecided(f"{MO}:{BDI}: block {ib}: the stored indices are not a tiled / repeated range")
        ok = _eq(rng.lo, O1(ib)) and _eq(rng.hi, O1(ib + 1))
        ctx.check("R2", ok, mod, BDI, st, f"block {ib}: the minor indices run over [{rng.lo}, {rng.hi}); block {ib} spans [{O1(ib)}, {O1(ib + 1)})", construct=f"{BDI}: index range of block {ib}")
        ctx.check("R2", _eq(reps, S[ib]), mod, BDI, st, f"block {ib}: the index range is laid down {reps} times; block {ib} has {S[ib]} lines", construct=f"{BDI}: repetitions of block {ib}")
        par.add(p % 2)
    if len(par) != 1:
        raise Undecided(f"{MO}:{BDI}: blocks are laid out differently")
    # block_diag_matrix
    fm = mod.func(BDM)
    mp = [a.arg for a in fm.args.args]
    if len(mp) != 2:
        raise AnchorError(f"{MO}:{BDM}: signature changed")
    vals, sz = mp
    ctor = [c for c in walk_local(fm) if isinstance(c, ast.Call) and call_name(c) in ("csr_matrix", "csc_matrix", "csr_array", "csc_array")]
    if len(ctor) != 1 or not (ctor[0].args and isinstance(ctor[0].args[0], ast.Tuple) and len(ctor[0].args[0].elts) == 3):
        raise Undecided(f"{MO}:{BDM}: the matrix is not built by one csr/csc constructor from (data, indices, indptr)")
    c = ctor[0]
    fmt_par = 0 if call_name(c).startswith("csr") else 1
    d_, i_, p_ = c.args[0].elts

    def origin(e):
        e2 = e
        seen = 0
        while isinstance(e2, ast.Name) and seen < 4:
            a = [s for s in stmts_local(fm) if isinstance(s, ast.Assign) and len(s.targets) == 1 and isinstance(s.targets[0], ast.Name) and s.targets[0].id == e2.id]
            if len(a) != 1:
                break
            e2 = a[0].value
            seen += 1
        return e2
    ctx.check("R5", u(d_) == vals, mod, BDM, c, f"the values handed to the constructor are `{u(d_)}`, not the parameter `{vals}`", construct=f"{BDM}: data argument")
    io = origin(i_)
    ok = isinstance(io, ast.Call) and call_name(io) == BDI and len(io.args) + len(io.keywords) == 1 and u((io.args + [k.value for k in io.keywords])[0]) == sz
    ctx.check("R5", ok, mod, BDM, c, f"the minor indices must be {BDI}({sz}); found `{u(io)[:60]}`", construct=f"{BDM}: indices argument")
    po = origin(p_)
    rl = [x for x in ast.walk(po) if isinstance(x, ast.Call) and call_name(x) == "rldecode"]
    cs = [x for x in ast.walk(po) if isinstance(x, ast.Call) and call_name(x) == "cumsum"]
    if len(rl) == 1 and cs:
        ok = len(rl[0].args) == 2 and u(rl[0].args[0]) == sz and u(rl[0].args[1]) == sz
        ctx.check("R5", ok, mod, BDM, c, f"every line of block b holds s_b entries: the line lengths must be rldecode({sz}, {sz}); found `{u(rl[0])}`", construct=f"{BDM}: line lengths")
    else:
        raise Undecided(f"{MO}:{BDM}: index pointer `{u(po)[:60]}` not recognised as cumsum of the line lengths")
    ctx.sample({"rule": "R3", "consumer": {"constructor": call_name(c), "index_layout_parity": par.copy().pop()}})
    return (par.pop() + fmt_par) % 2


def _dispatch(ctx: Ctx, mod) -> dict:
    fn = mod.func(IDB)
    params = [a.arg for a in fn.args.args]
    if len(params) < 2:
        raise AnchorError(f"{MO}:{IDB}: signature changed")
    mat = params[0]
    nested = {s.name: s for s in fn.body if isinstance(s, ast.FunctionDef)}
    cons = [c for c in walk_local(fn) if isinstance(c, ast.Call) and call_name(c) == BDM]
    if len(cons) != 1 or len(cons[0].args) != 2:
        raise Undecided(f"{MO}:{IDB}: expected one call {BDM}(values, sizes)")
    vname, sname = u(cons[0].args[0]), u(cons[0].args[1])
    kernels = {}
    for s in walk_local(fn):
        if isinstance(s, ast.Assign) and len(s.targets) == 1 and u(s.targets[0]) == vname and isinstance(s.value, ast.Call) and isinstance(s.value.func, ast.Name) \
                and s.value.func.id in nested:
            kernels[s.value.func.id] = s
    if not kernels:
        raise Undecided(f"{MO}:{IDB}: no kernel call assigns `{vname}`")
    # the size vector in force at the calls: last top-level assignment of the name before the dispatch (zero filter)
    for kname, s in kernels.items():
        c = s.value
        kp = [a.arg for a in nested[kname].args.args]
        bound = {kp[i]: u(a) for i, a in enumerate(c.args) if i < len(kp)}
        bound.update({k.arg: u(k.value) for k in c.keywords})
        ok = len(kp) == 2 and bound.get(kp[0]) == mat
        ctx.check("R5", ok, mod, IDB, s, f"{kname} must receive the matrix `{mat}`; found `{u(c)}`", construct=f"{IDB}: matrix argument of {kname}")
        ok = len(kp) == 2 and bound.get(kp[1]) == sname
        ctx.check("R5", ok, mod, IDB, s, f"{kname} receives the sizes `{bound.get(kp[1]) if len(kp) == 2 else '?'}` but {BDM} lays the result out with `{sname}`: "
                  f"values and index pattern are built for different block structures", construct=f"{IDB}: size argument of {kname}")
    # no re-binding of the size name between the kernel calls and the consumer
    lines = sorted(s.lineno for s in kernels.values())
    reb = [s for s in walk_local(fn) if isinstance(s, (ast.Assign, ast.AugAssign)) and any(isinstance(t, ast.Name) and t.id == sname for t in ast.walk(s) if isinstance(t, ast.Name) and isinstance(t.ctx, ast.Store))
           and lines[0] <= s.lineno <= cons[0].lineno]
    ctx.check("R5", not reb, mod, IDB, cons[0], f"`{sname}` is re-bound between the kernel call and {BDM}", construct=f"{IDB}: sizes unchanged between kernel and consumer")
    return {k: nested[k] for k in kernels}


def _check_kernels(ctx: Ctx, mod) -> None:
    kernels = _dispatch(ctx, mod)
    cpar = _consumer(ctx, mod)
    for kname, kfn in kernels.items():
        qual = f"{IDB}.{kname}"
        for fmt in ("csr", "csc"):
            kp = _kernel_parity(ctx, mod, qual, kfn, fmt)
            if kp is None:
                continue
            ok = (kp + cpar) % 2 == 0
            ctx.check("R3", ok, mod, qual, kfn,
                      f"[{fmt}] the kernel lays the inverse of each block down {'row' if kp == 0 else 'column'} by {'row' if kp == 0 else 'column'} "
                      f"(scatter order, reshape order and flattening of the inverse taken together), {BDM} reads it {'row' if cpar == 0 else 'column'} by "
                      f"{'row' if cpar == 0 else 'column'}: every block of the result is the transposed inverse", construct=f"{kname} [{fmt}]: layout parity",
                      desc=f"[{fmt}] layout parity of {kname} matches {BDM}", facts={"kernel_parity": kp, "consumer_parity": cpar})



# ------------------------------------------------------------------------------------------------------
# R6 bipartite encoding (producer) and R1 permutation algebra (consumer)
# ------------------------------------------------------------------------------------------------------

def _strip_int(e: ast.expr) -> ast.expr:
    return e.args[0] if isinstance(e, ast.Call) and isinstance(e.func, ast.Name) and e.func.id == "int" and len(e.args) == 1 else e


def _format_of(fn: ast.FunctionDef, name: str, depth: int = 0) -> Optional[str]:
    """storage format of a local matrix, if the code establishes it (conversion); None = whatever the caller passed"""
    vals = [s.value for s in stmts_local(fn) if isinstance(s, ast.Assign) and len(s.targets) == 1 and u(s.targets[0]) == name]
    if len(vals) != 1 or depth > 3:
        return None
    v = vals[0]
    if isinstance(v, ast.Call):
        nm = call_name(v)
        if nm in ("tocsr", "csr_matrix", "csr_array"):
            return "csr"
        if nm in ("tocsc", "csc_matrix", "csc_array"):
            return "csc"
        if nm == "copy" and isinstance(v.func, ast.Attribute) and isinstance(v.func.value, ast.Name):
            return _format_of(fn, v.func.value.id, depth + 1)
    if isinstance(v, ast.Name):
        return _format_of(fn, v.id, depth + 1)
    return None


def _pattern_source(ctx: Ctx, mod, fn: ast.FunctionDef) -> tuple[str, str]:
    """names of the arrays holding the row and the column index of every non-zero"""
    q = GEN
    asg = [s for s in stmts_local(fn) if isinstance(s, ast.Assign) and len(s.targets) == 1]
    for s in asg:      # rows, cols, _ = sps.find(X)
        if isinstance(s.value, ast.Call) and call_name(s.value) == "find" and isinstance(s.targets[0], ast.Tuple) and len(s.targets[0].elts) == 3:
            return u(s.targets[0].elts[0]), u(s.targets[0].elts[1])
    for s in asg:      # rows, cols = X.nonzero()
        if isinstance(s.value, ast.Call) and call_name(s.value) == "nonzero" and isinstance(s.targets[0], ast.Tuple) and len(s.targets[0].elts) == 2:
            return u(s.targets[0].elts[0]), u(s.targets[0].elts[1])
    coo = {}
    for s in asg:      # r = C.row; c = C.col  (C a coo matrix)
        if isinstance(s.value, ast.Attribute) and s.value.attr in ("row", "col") and isinstance(s.targets[0], ast.Name):
            coo[s.value.attr] = s.targets[0].id
    if set(coo) == {"row", "col"}:
        return coo["row"], coo["col"]
    # compressed storage: minor = X.indices, major = repeat(arange(n), diff(X.indptr)); which is the row depends on the format of X
    minor = [(s.targets[0].id, u(s.value.value)) for s in asg if isinstance(s.value, ast.Attribute) and s.value.attr == "indices" and isinstance(s.targets[0], ast.Name)]
    major = [(s.targets[0].id, s) for s in asg if isinstance(s.value, ast.Call) and call_name(s.value) == "repeat" and "indptr" in u(s.value) and isinstance(s.targets[0], ast.Name)]
    if len(minor) == 1 and len(major) == 1:
        mname, X = minor[0]
        fmt = _format_of(fn, X)
        ctx.check("R6", fmt is not None, mod, q, major[0][1],
                  f"the non-zero pattern is read from the compressed storage of `{X}` ({X}.indices / {X}.indptr) but nothing establishes the storage format of `{X}` "
                  f"(it is the caller's): `{mname}` holds column indices only for csr; for a csc matrix rows and columns are swapped and the permutation of the "
                  f"TRANSPOSED pattern is returned (format-agnostic readers: sps.find, .nonzero(), .tocoo())", construct=f"{q}: pattern read from compressed storage of known format")
        if fmt == "csc":
            return mname, major[0][0]
        return major[0][0], mname
    raise Undecided(f"{MO}:{q}: the non-zero pattern (row and column index of every entry) is read in an unrecognised way")


def _producer_roles(ctx: Ctx, mod) -> list:
    fn = mod.func(GEN)
    q = GEN
    # square validation makes the two shape names interchangeable
    shp = [s for s in stmts_local(fn) if isinstance(s, ast.Assign) and isinstance(s.targets[0], ast.Tuple) and len(s.targets[0].elts) == 2
           and isinstance(s.value, ast.Attribute) and s.value.attr == "shape"]
    alias: set[str] = set()
    if len(shp) == 1:
        a, b = (u(x) for x in shp[0].targets[0].elts)
        for iff in [n for n in walk_local(fn) if isinstance(n, ast.If) and any(isinstance(x, ast.Raise) for x in n.body)]:
            t = u(iff.test).replace(" ", "")
            if t in (f"not{a}=={b}", f"{a}!={b}", f"not{b}=={a}", f"{b}!={a}"):
                alias = {a, b}

    def same(x: str, y: str) -> bool:
        return x == y or (x in alias and y in alias)
    fr, fc = _pattern_source(ctx, mod, fn)
    enc = [n for n in walk_local(fn) if isinstance(n, ast.ListComp) and isinstance(n.elt, ast.Tuple) and len(n.elt.elts) == 2 and len(n.generators) == 1
           and isinstance(n.generators[0].iter, ast.Call) and call_name(n.generators[0].iter) == "zip"]
    if len(enc) != 1:
        raise Undecided(f"{MO}:{q}: the edge list (row node, column node) of the bipartite graph was not recognised")
    g = enc[0].generators[0]
    if not (isinstance(g.target, ast.Tuple) and len(g.target.elts) == 2 and len(g.iter.args) == 2):
        raise Undecided(f"{MO}:{q}: edge comprehension does not zip two index arrays")
    var_role = {}
    for tv, za in zip(g.target.elts, g.iter.args):
        var_role[u(tv)] = "row" if u(za) == fr else "col" if u(za) == fc else None
    plain = off = None
    for comp_e in enc[0].elt.elts:
        e = _strip_int(comp_e)
        if isinstance(e, ast.Name) and var_role.get(e.id):
            plain = var_role[e.id]
        elif isinstance(e, ast.BinOp) and isinstance(e.op, ast.Add):
            for a_, b_ in ((e.left, e.right), (e.right, e.left)):
                if isinstance(a_, ast.Name) and var_role.get(a_.id) and isinstance(b_, ast.Name):
                    off = (var_role[a_.id], b_.id)
    if plain is None or off is None or {plain, off[0]} != {"row", "col"}:
        raise Undecided(f"{MO}:{q}: node encoding is not (plain index, offset + other index): `{u(enc[0].elt)}`")
    OFF = off[1]
    # decoding comprehensions
    dec: dict[str, tuple] = {}     # list name -> (side, stmt)
    for s in walk_local(fn):
        if not (isinstance(s, ast.Assign) and len(s.targets) == 1 and isinstance(s.targets[0], ast.Name)):
            continue
        lc = s.value
        while isinstance(lc, ast.Call) and isinstance(lc.func, ast.Name) and lc.func.id in ("sorted", "list", "tuple") and len(lc.args) == 1:
            lc = lc.args[0]      # order within a block is free: any ordering of the rows / columns of one block keeps it a block
        if not isinstance(lc, (ast.ListComp, ast.GeneratorExp)):
            continue
        if len(lc.generators) != 1 or len(lc.generators[0].ifs) != 1 or not isinstance(lc.generators[0].target, ast.Name):
            continue
        gv = lc.generators[0].target.id
        t = lc.generators[0].ifs[0]
        neg = False
        if isinstance(t, ast.UnaryOp) and isinstance(t.op, ast.Not):
            neg, t = True, t.operand
        if not (isinstance(t, ast.Compare) and len(t.ops) == 1):
            continue
        l, op, r = t.left, type(t.ops[0]), t.comparators[0]
        flip = {ast.Lt: ast.Gt, ast.Gt: ast.Lt, ast.LtE: ast.GtE, ast.GtE: ast.LtE}
        if u(r) == gv and op in flip:
            l, r, op = r, l, flip[op]
        if u(l) != gv or op not in flip:
            continue
        if neg:
            op = {ast.Lt: ast.GtE, ast.GtE: ast.Lt, ast.Gt: ast.LtE, ast.LtE: ast.Gt}[op]
        thr = u(r)
        el = lc.elt
        if u(el) == gv:
            side, sub = "plain", None
        elif isinstance(el, ast.BinOp) and isinstance(el.op, ast.Sub) and u(el.left) == gv:
            side, sub = "off", u(el.right)
        else:
            continue
        src = u(lc.generators[0].iter)
        dec[s.targets[0].id] = (side, s, src)
        if side == "plain":
            ok = op is ast.Lt and same(thr, OFF)
            ctx.check("R6", ok, mod, q, s, f"{plain} nodes are the nodes `< {OFF}` (column nodes are encoded as {OFF} + j); they are selected by `{u(lc.generators[0].ifs[0])}`",
                      construct=f"{q}: predicate of the plain ({plain}) nodes")
        else:
            ok = op is ast.GtE and same(thr, OFF)
            ctx.check("R6", ok, mod, q, s, f"{off[0]} nodes are the nodes `>= {OFF}` ({off[0]} j is encoded as {OFF} + j, so j = 0 is node {OFF} itself); they are selected by "
                      f"`{u(lc.generators[0].ifs[0])}`", construct=f"{q}: predicate of the offset ({off[0]}) nodes")
            ok = sub is not None and same(sub, OFF)
            ctx.check("R6", ok, mod, q, s, f"{off[0]} nodes are encoded with offset {OFF} but decoded by subtracting {sub}", construct=f"{q}: decoding offset")
    sides = {v[0] for v in dec.values()}
    if sides != {"plain", "off"}:
        raise Undecided(f"{MO}:{q}: the per-component row/column node lists were not recognised")
    # lock-step appends inside the component loop
    loops = [l for l in walk_local(fn) if isinstance(l, ast.For) and isinstance(l.target, ast.Name) and any(v[2] == l.target.id for v in dec.values())]
    if len(loops) != 1:
        raise Undecided(f"{MO}:{q}: the loop over the connected components was not recognised")
    lp = loops[0]
    comp = lp.target.id
    role_of_list: dict[str, str] = {}
    in_loop = []
    for c in [c for c in walk_local(lp) if isinstance(c, ast.Call) and isinstance(c.func, ast.Attribute) and c.func.attr in ("extend", "append") and len(c.args) == 1]:
        tgt, a0 = u(c.func.value), c.args[0]
        if c.func.attr == "extend" and isinstance(a0, ast.Name) and a0.id in dec:
            role_of_list.setdefault(tgt, plain if dec[a0.id][0] == "plain" else off[0])
            in_loop.append((tgt, dec[a0.id][2]))
        else:
            if c.func.attr == "append" and isinstance(a0, ast.Name):
                tmp = [s_.value for s_ in walk_local(lp) if isinstance(s_, ast.Assign) and len(s_.targets) == 1 and u(s_.targets[0]) == a0.id]
                if len(tmp) == 1:
                    a0 = tmp[0]
            if c.func.attr == "append" and isinstance(a0, ast.Call) and u(a0.func) == "len" and len(a0.args) == 1 and isinstance(a0.args[0], ast.Name) and a0.args[0].id in dec:
                role_of_list.setdefault(tgt, "sizes")
                in_loop.append((tgt, dec[a0.args[0].id][2]))
    roles_found = sorted(set(role_of_list.values()))
    ctx.check("R6", roles_found == ["col", "row", "sizes"] and len(role_of_list) == 3, mod, q, lp,
              f"per component the row list, the column list and the block size must be appended in the same iteration; found {role_of_list}",
              construct=f"{q}: rows, columns and size appended per component")
    ctx.check("R6", all(src == comp for _, src in in_loop) and len(in_loop) >= 3, mod, q, lp, f"all three are derived from the component `{comp}` of the same iteration",
              construct=f"{q}: appended lists derive from the same component")
    inv_role = {v: k for k, v in role_of_list.items()}
    # rows without entries: one 1x1 block each, in all three lists
    for l2 in [l for l in walk_local(fn) if isinstance(l, ast.For) and l is not lp and isinstance(l.target, ast.Name)]:
        apps = {}
        for c in [c for c in walk_local(l2) if isinstance(c, ast.Call) and isinstance(c.func, ast.Attribute) and c.func.attr == "append" and len(c.args) == 1]:
            apps[u(c.func.value)] = u(c.args[0])
        if not (set(apps) & set(role_of_list)):
            continue
        ok = set(apps) >= set(role_of_list) and apps.get(inv_role.get("row")) == l2.target.id and apps.get(inv_role.get("col")) == l2.target.id \
            and apps.get(inv_role.get("sizes")) == "1"
        ctx.check("R6", ok, mod, q, l2, f"an all-zero row must extend the row list, the column list (same index) and the sizes (1) together; found {apps}",
                  construct=f"{q}: all-zero rows extend all three lists")
    ext = {}
    for c in [c for c in walk_local(fn) if isinstance(c, ast.Call) and isinstance(c.func, ast.Attribute) and c.func.attr == "extend" and len(c.args) == 1
              and u(c.func.value) in role_of_list and not any(c is x for x in walk_local(lp))]:
        ext[u(c.func.value)] = c.args[0]
    if ext:
        r_, c_, z_ = (ext.get(inv_role.get(k_)) for k_ in ("row", "col", "sizes"))
        ok = r_ is not None and c_ is not None and z_ is not None and u(r_) == u(c_) and u(z_).replace(" ", "") in (f"[1]*len({u(r_)})", f"len({u(r_)})*[1]")
        ctx.check("R6", ok, mod, q, next(iter(ext.values())), f"all-zero rows must extend the row list, the column list (same indices) and the sizes (one 1 per row) together; "
                  f"found { {k_: u(v_) for k_, v_ in ext.items()} }", construct=f"{q}: all-zero rows extend all three lists")
    # returned triple
    rets = [r for r in walk_local(fn) if isinstance(r, ast.Return) and isinstance(r.value, ast.Tuple) and len(r.value.elts) == 3 and all(isinstance(x, ast.Name) for x in r.value.elts)]
    if not rets or len({tuple(x.id for x in r.value.elts) for r in rets}) != 1:
        raise Undecided(f"{MO}:{q}: does not return one triple of names")
    rets = [rets[-1]]
    roles = []
    for x in rets[0].value.elts:
        vals = [s_.value for s_ in walk_local(fn) if isinstance(s_, ast.Assign) and len(s_.targets) == 1 and u(s_.targets[0]) == x.id]
        rs = set()
        for v in vals:
            if isinstance(v, ast.Call) and call_name(v) in ("array", "asarray") and v.args and isinstance(v.args[0], ast.Name) and v.args[0].id in role_of_list:
                rs.add(role_of_list[v.args[0].id])
        if len(rs) != 1:
            raise Undecided(f"{MO}:{q}: cannot determine what the returned `{x.id}` holds")
        roles.append(rs.pop())
    # single-component shortcut
    names = [x.id for x in rets[0].value.elts]
    shape_names = {u(x) for x in shp[0].targets[0].elts} if shp else set()
    for iff in [n for n in walk_local(fn) if isinstance(n, ast.If) and "len(" in u(n.test) and "== 1" in u(n.test)]:
        asg = {u(s_.targets[0]): s_.value for s_ in iff.body if isinstance(s_, ast.Assign) and len(s_.targets) == 1}
        if not set(names) <= set(asg):
            continue
        perms = [asg[names[i]] for i in range(3) if roles[i] in ("row", "col")]
        ok = all(isinstance(v, ast.Call) and call_name(v) == "arange" and len(v.args) == 1 and (u(v.args[0]) in alias or u(v.args[0]) in shape_names) for v in perms)
        ctx.check("R6", ok, mod, q, iff, "a single component means the matrix is one block: both permutations are the identity arange(n)", construct=f"{q}: shortcut permutations")
        sz = asg[names[roles.index("sizes")]]
        ok = isinstance(sz, ast.Call) and call_name(sz) in ("array", "asarray") and sz.args and isinstance(sz.args[0], ast.List) and len(sz.args[0].elts) == 1 \
            and (u(sz.args[0].elts[0]) in alias or u(sz.args[0].elts[0]) in shape_names)
        ctx.check("R6", ok, mod, q, iff, f"a single component is one block of size n; found `{u(sz)[:50]}`", construct=f"{q}: shortcut block size")
    ctx.sample({"rule": "R6", "encoding": {"plain": plain, "offset": off[0], "by": OFF}, "lists": role_of_list, "returned_roles": roles})
    return roles


def _wt(word):
    return [("G", a[1], -a[2]) if a[0] == "G" else ("A", not a[1], a[2]) for a in reversed(word)]


def _winv(word):
    return [("G", a[1], -a[2]) if a[0] == "G" else ("A", a[1], not a[2]) for a in reversed(word)]


def _wred(word):
    out = []
    for a in word:
        if out and a[0] == "G" and out[-1][0] == "G" and out[-1][1] == a[1] and out[-1][2] == -a[2]:
            out.pop()
        else:
            out.append(a)
    return out


def _wshow(word) -> str:
    def one(a):
        if a[0] == "G":
            return f"G({a[1]})" + ("^-1" if a[2] < 0 else "")
        return "A" + ("^T" if a[1] else "") + ("^-1" if a[2] else "")
    return " ".join(one(a) for a in word) or "I"


def _data_store(s_: ast.stmt, env_: dict) -> Optional[str]:
    """name of the matrix whose `.data` is assigned by the statement"""
    t = s_.targets[0] if isinstance(s_, ast.Assign) else s_.target
    while isinstance(t, ast.Subscript):
        t = t.value
    if isinstance(t, ast.Attribute) and t.attr == "data" and isinstance(t.value, ast.Name) and t.value.id in env_:
        return t.value.id
    return None


def _check_permuted(ctx: Ctx, mod, prod_roles: list) -> None:
    fn = mod.func(APPLY)
    q = APPLY
    params = [a.arg for a in fn.args.args]
    if len(params) != 4:
        raise AnchorError(f"{MO}:{q}: signature changed")
    A = params[0]
    env: dict[str, list] = {A: [("A", False, False)]}
    inv_calls: list = []

    def perm(e: ast.expr) -> str:
        if isinstance(e, ast.Name) and e.id in params[1:]:
            return e.id
        raise Undecided(f"{MO}:{q}: index array `{u(e)[:40]}` is not a parameter")

    def full(sl) -> bool:
        return isinstance(sl, ast.Slice) and sl.lower is None and sl.upper is None and sl.step is None

    idb_params = [x.arg for x in mod.func(IDB).args.args]

    def bind(fnname: str, fparams: list, call: ast.Call) -> dict:
        out = {}
        for i_, a_ in enumerate(call.args):
            if isinstance(a_, ast.Starred) or i_ >= len(fparams):
                raise Undecided(f"{MO}:{q}: arguments of {fnname}")
            out[fparams[i_]] = a_
        for k_ in call.keywords:
            if k_.arg is None or k_.arg in out:
                raise Undecided(f"{MO}:{q}: arguments of {fnname}")
            out[k_.arg] = k_.value
        return out

    def run_body(stmts: list, env_: dict, depth: int):
        for s_ in stmts:
            if isinstance(s_, ast.Assign) and len(s_.targets) == 1 and isinstance(s_.targets[0], ast.Name):
                env_[s_.targets[0].id] = W(s_.value, env_, depth)
            elif isinstance(s_, ast.AnnAssign) and isinstance(s_.target, ast.Name) and s_.value is not None:
                env_[s_.target.id] = W(s_.value, env_, depth)
            elif isinstance(s_, ast.Return) and s_.value is not None:
                return W(s_.value, env_, depth)
            elif isinstance(s_, ast.Expr):
                c_ = s_.value
                if isinstance(c_, ast.Constant) or (isinstance(c_, ast.Call) and isinstance(c_.func, ast.Attribute)
                                                   and c_.func.attr in ("eliminate_zeros", "sort_indices", "sum_duplicates", "check_format", "prune")):
                    continue       # storage clean-up: the represented matrix is unchanged
                raise Undecided(f"{MO}:{q}: statement `{u(s_)[:50]}`")
            elif isinstance(s_, (ast.Assign, ast.AugAssign)) and _data_store(s_, env_) is not None:
                tgt_ = _data_store(s_, env_)
                ctx.check("R1", False, mod, q, s_, f"the stored entries of `{tgt_}` ({_wshow(_wred(env_[tgt_]))}) are overwritten in place (`{u(s_)[:70]}`): what is returned is "
                          f"no longer the matrix the permutation algebra produced (an absolute threshold or rescaling of the inverse is not scale invariant)",
                          construct=f"{q}: entries of a matrix of the chain are overwritten")
            else:
                raise Undecided(f"{MO}:{q}: statement `{u(s_)[:50]}`")
        return None

    def W(e: ast.expr, env_: dict, depth: int = 0) -> list:
        if isinstance(e, ast.Name):
            if e.id in env_:
                return env_[e.id]
            raise Undecided(f"{MO}:{q}: `{e.id}` is not a matrix / slicer known to the analysis")
        if isinstance(e, ast.Attribute) and e.attr == "T":
            return _wt(W(e.value, env_, depth))
        if isinstance(e, ast.BinOp) and isinstance(e.op, (ast.MatMult, ast.Mult)):
            return W(e.left, env_, depth) + W(e.right, env_, depth)
        if isinstance(e, ast.Subscript):
            base, sl = W(e.value, env_, depth), e.slice
            if isinstance(sl, ast.Tuple) and len(sl.elts) == 2:
                r_, c_ = sl.elts
                out = list(base)
                if not full(r_):
                    out = [("G", perm(r_), 1)] + out
                if not full(c_):
                    out = out + [("G", perm(c_), -1)]
                return out
            if isinstance(sl, ast.Call) and dotted(sl.func) == "np.ix_" and len(sl.args) == 2:
                return [("G", perm(sl.args[0]), 1)] + list(base) + [("G", perm(sl.args[1]), -1)]
            return [("G", perm(sl), 1)] + list(base)
        if isinstance(e, ast.Call):
            nm = call_name(e)
            if nm == "ArraySlicer":
                kws = {k.arg: k.value for k in e.keywords}
                if len(e.args) == 1 and not kws:
                    return [("G", perm(e.args[0]), 1)]
                if not e.args and set(kws) == {"domain_indices"}:
                    return [("G", perm(kws["domain_indices"]), 1)]
                if not e.args and set(kws) == {"range_indices"}:
                    return [("G", perm(kws["range_indices"]), -1)]
                raise Undecided(f"{MO}:{q}: slicer `{u(e)[:50]}`")
            if nm == IDB:
                bd_ = bind(IDB, idb_params, e)
                if idb_params[0] not in bd_ or idb_params[1] not in bd_:
                    raise Undecided(f"{MO}:{q}: arguments of {IDB}")
                w = W(bd_[idb_params[0]], env_, depth)
                inv_calls.append((w, bd_[idb_params[1]], e))
                return _winv(w)
            if isinstance(e.func, ast.Attribute) and nm in ("transpose",) and not e.args:
                return _wt(W(e.func.value, env_, depth))
            if isinstance(e.func, ast.Attribute) and nm in ("tocsr", "tocsc", "copy", "tocoo") and not e.args:
                return W(e.func.value, env_, depth)
            if isinstance(e.func, ast.Attribute) and nm == "dot" and len(e.args) == 1:
                return W(e.func.value, env_, depth) + W(e.args[0], env_, depth)
            if nm in ("csr_matrix", "csc_matrix") and len(e.args) == 1:
                return W(e.args[0], env_, depth)
            if isinstance(e.func, ast.Name) and depth < 2:
                helper = mod.get(e.func.id)
                if isinstance(helper, ast.FunctionDef) and not helper.args.vararg and not helper.args.kwarg:
                    hp = [x.arg for x in helper.args.args]
                    bd_ = bind(helper.name, hp, e)
                    if set(bd_) != set(hp):
                        raise Undecided(f"{MO}:{q}: helper {helper.name} called without all its arguments")
                    res_ = run_body(body_nodoc(helper), {k_: W(v_, env_, depth) for k_, v_ in bd_.items()}, depth + 1)
                    if res_ is None:
                        raise Undecided(f"{MO}:{q}: helper {helper.name} returns nothing")
                    return res_
        raise Undecided(f"{MO}:{q}: cannot translate `{u(e)[:60]}`")

    body = body_nodoc(fn)
    # the sizes argument is recorded as an expression of the outer function: resolve through the statements
    result = run_body(body, env, 0)
    if result is None or len(inv_calls) != 1:
        raise AnchorError(f"{MO}:{q}: block-diagonal inversion / return not found")
    bd, sizes_arg, call = inv_calls[0]
    bd = _wred(bd)
    ok_form = len(bd) == 3 and bd[0][0] == "G" and bd[0][2] == 1 and bd[1] == ("A", False, False) and bd[2][0] == "G" and bd[2][2] == -1 and bd[0][1] != bd[2][1]
    ctx.check("R1", ok_form, mod, q, call, f"the matrix handed to the block inverter is {_wshow(bd)}; the permutation contract is G(rows) A G(cols)^-1, i.e. A[rows][:, cols]",
              construct=f"{q}: block-diagonal form", facts={"word": _wshow(bd)})
    red = _wred(result)
    ok = red == [("A", False, True)]
    ctx.check("R1", ok, mod, q, fn, f"with B = inverse of ({_wshow(bd)}) the returned matrix is {_wshow(red)}, not A^-1: the un-permutation must apply the column "
              f"permutation as a scatter of the rows and the row permutation as a scatter of the columns", construct=f"{q}: returned word reduces to A^-1", facts={"word": _wshow(red)})
    ok = isinstance(sizes_arg, ast.Name) and sizes_arg.id in params[1:] and (not ok_form or sizes_arg.id not in (bd[0][1], bd[2][1]))
    ctx.check("R1", ok, mod, q, call, f"the block sizes handed to {IDB} are `{u(sizes_arg)}`", construct=f"{q}: sizes argument")
    cons = {}
    if ok_form:
        cons[bd[0][1]] = "row"
        cons[bd[2][1]] = "col"
    if isinstance(sizes_arg, ast.Name):
        cons.setdefault(sizes_arg.id, "sizes")
    for i in range(3):
        got = cons.get(params[i + 1])
        ctx.check("R1", got == prod_roles[i], mod, f"{GEN} -> {APPLY}", fn,
                  f"element {i} of the triple returned by {GEN} holds the {prod_roles[i]} but parameter `{params[i + 1]}` of {APPLY} is used as {got}",
                  construct=f"triple[{i}] produced as {prod_roles[i]}, consumed as {got}", desc=f"triple[{i}]: produced as {prod_roles[i]}, consumed as {got}")
    ctx.sample({"rule": "R1", "block_diagonal_form": _wshow(bd), "returned": _wshow(red)})


def run(ctx: Ctx) -> None:
    mod = ctx.repo.module(MO)
    roles = _producer_roles(ctx, mod)
    _check_permuted(ctx, mod, roles)
    _check_kernels(ctx, mod)


def _m(name, old, new, rule, control=False, count=1, accept_undecided=False):
    return dict(name=name, file=MO, old=old, new=new, rule=rule, control=control, count=count, accept_undecided=accept_undecided)


MUTANTS = [
    # R1 permutation algebra
    _m("unpermute-perms-on-wrong-sides", "    inv_A = col_slicer @ (inv_row_slicer @ inv_A_block_diag.T).T\n", "    inv_A = inv_row_slicer @ (col_slicer @ inv_A_block_diag.T).T\n", "R1", control=True),
    _m("unpermute-row-slicer-not-transposed", "    inv_row_slicer = row_slicer.T\n", "    inv_row_slicer = row_slicer\n", "R1"),
    _m("unpermute-gathers-instead-of-scatters", "    inv_A = col_slicer @ (inv_row_slicer @ inv_A_block_diag.T).T\n", "    inv_A = col_slicer.T @ (row_slicer @ inv_A_block_diag.T).T\n", "R1"),
    _m("forward-perms-on-wrong-sides", "    A_block_diag = row_slicer @ (col_slicer.T @ A.T).T\n", "    A_block_diag = col_slicer.T @ (row_slicer @ A.T).T\n", "R1"),
    _m("forward-column-scatter", "    A_block_diag = row_slicer @ (col_slicer.T @ A.T).T\n", "    A_block_diag = row_slicer @ (col_slicer @ A.T).T\n", "R1"),
    _m("slicer-roles-swapped", "    row_slicer = ArraySlicer(domain_indices=row_permutation)\n    col_slicer = ArraySlicer(range_indices=col_permutation)\n",
       "    row_slicer = ArraySlicer(domain_indices=col_permutation)\n    col_slicer = ArraySlicer(range_indices=row_permutation)\n", "R1"),
    _m("producer-returns-cols-first", "    return row_perm, col_perm, block_sizes\n", "    return col_perm, row_perm, block_sizes\n", "R1"),
    _m("inverse-not-transposed-back", "    inv_A = col_slicer @ (inv_row_slicer @ inv_A_block_diag.T).T\n", "    inv_A = col_slicer @ (inv_row_slicer @ inv_A_block_diag.T)\n", "R1"),
    # R2 block offsets
    _m("numba-line-length-from-previous-block", "                sequence_ij = l_row * sz[ib + 1] + l_col\n", "                sequence_ij = l_row * sz[ib] + l_col\n", "R2"),
    _m("numba-dense-shape-mixed", "dense_block = np.reshape(flat_block, (sz[ib + 1], sz[ib + 1]))", "dense_block = np.reshape(flat_block, (sz[ib], sz[ib + 1]))", "R2"),
    _m("numba-output-offsets-not-squared", "            idx_inv_blocks = np.cumsum(np.square(sz)).astype(np.int32)\n", "            idx_inv_blocks = np.cumsum(sz).astype(np.int32)\n", "R2"),
    _m("python-shift-by-block-end", "            idx_shift = idx_blocks[ib]\n            # Transform from global to local rows positions", "            idx_shift = idx_blocks[ib + 1]\n            # Transform from global to local rows positions", "R2"),
    _m("python-output-offsets-not-squared", "        idx_inv_blocks = np.cumsum([0] + list(size * size))\n", "        idx_inv_blocks = np.cumsum([0] + list(size))\n", "R2"),
    _m("python-column-not-shifted", "            l_col = cols[idx_nnz[ib] : idx_nnz[ib + 1]] - idx_shift\n            # Construct", "            l_col = cols[idx_nnz[ib] : idx_nnz[ib + 1]]\n            # Construct", "R2"),
    _m("python-skips-last-block", "map(operate_on_block, range(size.size))", "map(operate_on_block, range(size.size - 1))", "R2"),
    _m("consumer-repetitions-from-previous-block", "            i_val = np.empty((n[ib + 1], *i_range.shape), i_range.dtype)\n", "            i_val = np.empty((n[ib], *i_range.shape), i_range.dtype)\n", "R2"),
    _m("consumer-offsets-not-squared", "        idx_inv_blocks = np.cumsum(np.square(n), dtype=np.int32)\n", "        idx_inv_blocks = np.cumsum(n, dtype=np.int32)\n", "R2"),
    # R3 transposition parity
    _m("python-scatter-column-major", "            sequence_ij = l_row * size[ib] + l_col\n", "            sequence_ij = l_col * size[ib] + l_row\n", "R3", control=True),
    _m("numba-inverse-flattened-transposed", "                v[v_range] = np.ravel(np.linalg.inv(dense_block))\n", "                v[v_range] = np.ravel(np.linalg.inv(dense_block).T)\n", "R3"),
    _m("python-reshape-fortran", "            dense_block = np.reshape(flat_block, (size[ib], size[ib]))\n", "            dense_block = np.reshape(flat_block, (size[ib], size[ib]), order=\"F\")\n", "R3"),
    _m("consumer-csc", "    return sps.csr_matrix((vals, indices, indptr), shape=(n, n))\n", "    return sps.csc_matrix((vals, indices, indptr), shape=(n, n))\n", "R3"),
    _m("numba-csc-arm-roles-swapped", "                    l_row = rows[idx_nnz[ib] : idx_nnz[ib + 1]] - idx_shift\n                    l_col = (\n                        np.repeat(",
       "                    l_col = rows[idx_nnz[ib] : idx_nnz[ib + 1]] - idx_shift\n                    l_row = (\n                        np.repeat(", "R3"),
    dict(name="python-csc-arm-roles-swapped", rule="R3", control=False, edits=[
        dict(file=MO, old="            # rows are in fact a.indices\n            rows = a.indices\n", new="            # rows are in fact a.indices\n            cols = a.indices\n"),
        dict(file=MO, old="            cols = np.repeat(np.arange(a.shape[1], dtype=np.int32), col_reps)\n", new="            rows = np.repeat(np.arange(a.shape[1], dtype=np.int32), col_reps)\n")]),
    # R4 lock-step windows
    _m("python-columns-cut-with-line-offsets", "            l_col = cols[idx_nnz[ib] : idx_nnz[ib + 1]] - idx_shift\n            # Construct", "            l_col = cols[idx_blocks[ib] : idx_blocks[ib + 1]] - idx_shift\n            # Construct", "R4"),
    _m("numba-counts-cut-with-nnz-offsets", "                            row_reps[idx_block[0] : idx_block[1]],\n", "                            row_reps[idx_nnz[ib] : idx_nnz[ib + 1]],\n", "R4"),
    _m("numba-data-cut-with-line-offsets", "                flat_block[sequence_ij] = data[idx_nnz[ib] : idx_nnz[ib + 1]]\n", "                flat_block[sequence_ij] = data[idx_blocks[ib] : idx_blocks[ib + 1]]\n", "R4"),
    _m("numba-nnz-from-output-offsets", "            idx_nnz = np.searchsorted(indices, idx_blocks).astype(np.int32)\n", "            idx_nnz = np.searchsorted(indices, idx_inv_blocks).astype(np.int32)\n", "R4"),
    dict(name="seed-csc-line-counts-per-row", rule="R4", control=False, edits=[
        dict(file=MO, old="            col_reps = a.indptr[1 : a.indptr.size] - a.indptr[0 : a.indptr.size - 1]\n            # cols are in fact a vector", new="            col_reps = a.getnnz(axis=1)\n            # cols are in fact a vector")]),
    _m("seed-pattern-from-compressed-storage", "    rows, cols, _ = sps.find(A_clean)\n",
       "    cols = A_clean.indices\n    rows = np.repeat(np.arange(num_rows, dtype=cols.dtype), np.diff(A_clean.indptr))\n", "R6"),
    _m("seed-absolute-threshold-on-inverse", "    # Eliminate zero entries.\n    inv_A.eliminate_zeros()\n",
       "    inv_A.data[np.abs(inv_A.data) < np.finfo(float).eps] = 0.0\n    inv_A.eliminate_zeros()\n", "R1"),
    # R5 dispatch
    dict(name="kernel-gets-unfiltered-sizes", rule="R5", control=False, edits=[
        dict(file=MO, old="    s = s[s > 0]\n", new="    s_pos = s[s > 0]\n"),
        dict(file=MO, old="    ia = block_diag_matrix(inv_vals, s)\n", new="    ia = block_diag_matrix(inv_vals, s_pos)\n")]),
    _m("consumer-line-lengths-not-expanded", "np.cumsum(rldecode(sz, sz))", "np.cumsum(rldecode(sz, np.ones_like(sz)))", "R5"),
    # R6 bipartite encoding
    _m("column-zero-dropped", "            var_cols_in_block = [node - num_rows for node in comp if node >= num_rows]\n", "            var_cols_in_block = [node - num_rows for node in comp if node > num_rows]\n", "R6"),
    _m("zero-rows-without-block-size", "            block_col_indices.append(idx)\n            block_sizes_.append(1)\n", "            block_col_indices.append(idx)\n", "R6"),
    _m("columns-list-gets-rows", "            block_col_indices.extend(var_cols_in_block)\n", "            block_col_indices.extend(eq_rows_in_block)\n", "R6"),
    _m("shortcut-block-size-one", "        block_sizes = np.array([num_rows], dtype=idx_dtype)\n", "        block_sizes = np.array([1], dtype=idx_dtype)\n", "R6"),
]
