"""C38 - export/import: writer-reader agreement (per-block gather <-> scatter, grid iteration
order and offsets, cell-id renumbering, vector-format reshapes, JSON/pvd keys, file-name grammar)."""
from __future__ import annotations

import ast
import re

from ..core.astutil import (u, dotted, walk_local, calls_in, call_name, kwarg, names_in, stmts_local,
                            assigned_targets, body_nodoc, subst, parent_map, single_assign_value, inline_locals)
from ..core.loader import AnchorError, Undecided
from ..core.report import Ctx
from .c36 import Normalizer  # refactoring-tolerant normalisation (helper inlining, alias/constant propagation, idioms)

EXP = "src/porepy/viz/exporter.py"
TSC = "src/porepy/numerics/time_step_control.py"
MDG = "src/porepy/grids/md_grid.py"
ADU = "src/porepy/numerics/ad/ad_utils.py"
# functions the rules anchor on: never inlined into their callers by the normaliser
KEEP = {"_sort_and_unify_data", "_update_constant_mesh_data", "_export_data_vtu", "_export_mdg_pvd", "_update_meshio_geom",
        "_export_grid", "_export_grid_0d", "_export_grid_1d", "_export_grid_2d", "_export_grid_3d", "_simplex_cell_to_nodes",
        "_export_simplex_3d", "_export_hexahedron_3d", "_test_hex_meshio_format", "_export_polyhedron_3d", "_write",
        "_append_folder_name", "_make_file_name", "_num_grid_entities", "_from_vector_format", "_save_to_mdg",
        "_to_vector_format", "_build_field", "_add_data"}

META = {
    "explanation": (
        "Writer-reader agreement between Exporter's vtu/pvd writers and import_state_from_vtu/import_from_pvd, and "
        "between TimeManager.write_time_information/load_time_information, decided on the syntax tree. "
        "R1: _write stores cell data per block by gathering values[ids] for ids in <geometry>.cell_ids; the reader "
        "must pass to the per-grid chopping a value obtained by the inverse scatter through the concatenation of the "
        "same cell_ids in the same block order (value[concat(cell_ids)] = concat(blocks), or the argsort gather); "
        "point data carries no permutation on either side; writer and reader pick the subdomain/interface geometry "
        "table consistently with the grids they iterate. R2: geometry construction, data stacking and the reader's "
        "chopping iterate the grids through the same mdg call (subdomains(dim=dim) / interfaces(dim=dim, codim=1)); "
        "the reader slices value[offset:offset+n] with n = _num_grid_entities(grid, entity type) and advances offset "
        "by n exactly once per grid after the slice; it stores to the solution slot the writer reads. R3: every "
        "Meshio_Geom builder numbers the cells of grid k after those of grids 0..k-1 (ids shifted by an offset that "
        "advances by grid.num_cells after use, or the identity over the total). R4: _to_vector_format reshapes to "
        "(-1, num_dofs) with order o, _write transposes 2-d data once, so _from_vector_format must ravel with the "
        "flipped order. R5: JSON keys written == keys read, each key bound to the same attribute on both sides, "
        "appended from self.time/self.dt in lock-step and restored/truncated with one index. R6: the pvd element and "
        "attribute names read by import_from_pvd occur in the template of the matching writer; the time index is cut "
        "from the stem with the padding used to write it; the file-name grammar <stem>[_appendix]_<dim>[_<time>] "
        "agrees with the reader's position rule. R7: import_from_pvd selects the restart step with a numeric ordering of "
        "the timestep strings and takes the latest. All functions are analysed on normalised deep copies (private one-level "
        "helpers inlined, aliases/module constants propagated, list-building loops as comprehensions). Not decided: values of meshio's own read/write, the grids' cell "
        "counts, and which time step is the 'latest' (string ordering of the timestep attribute, see notes)."),
    "rule_text": "one obligation per (gather site | reader call of the per-grid saver | iteration call | loop | geometry builder | key | attribute)",
    "trusted_base": ["python ast", "sa.core (loader, astutil)", "numpy semantics of reshape/ravel order flags, fancy-index gather/scatter"],
    "assumptions": ["meshio returns cell_data[key] as a list of blocks in the order of the cell blocks written",
                    "MixedDimensionalGrid.subdomains/interfaces return a deterministic order for equal arguments",
                    "cell data reaches files only through Exporter._write"],
    "technique": "AST normalisation (one-level helper inlining, copy propagation, loop->comprehension) + writer/reader table extraction with block-local symbolic resolution; permutation direction (gather vs scatter) matching",
}
MIN_INSTANCES = {"R1": 7, "R2": 7, "R3": 6, "R4": 3, "R5": 6, "R6": 8, "R7": 1}


# ----------------------------------------------------------------------------------------
# helpers
# ----------------------------------------------------------------------------------------

def _params(fn) -> list[str]:
    a = fn.args
    return [x.arg for x in a.posonlyargs + a.args + a.kwonlyargs]


def _nested(fn: ast.AST, pred) -> list[ast.FunctionDef]:
    return [n for n in ast.walk(fn) if isinstance(n, ast.FunctionDef) and n is not fn and pred(n)]


def _strip_T(e: ast.expr) -> tuple[ast.expr, int]:
    t = 0
    while True:
        if isinstance(e, ast.Attribute) and e.attr == "T":
            e, t = e.value, t + 1
        elif isinstance(e, ast.Call) and isinstance(e.func, ast.Attribute) and e.func.attr == "transpose" and not e.args:
            e, t = e.func.value, t + 1
        else:
            return e, t


def _concat_source(e: ast.expr) -> ast.expr | None:
    """np.concatenate(X) / np.concatenate(tuple(X), axis=0) / np.hstack(X) /
    np.concatenate([np.asarray(t, ...) for t in X]) -> X (blocks joined in list order along
    axis 0); None if e is not such a call."""
    if not (isinstance(e, ast.Call) and call_name(e) in ("concatenate", "hstack") and e.args):
        return None
    ax = kwarg(e, "axis")
    if ax is not None and not (isinstance(ax, ast.Constant) and ax.value == 0):
        return None
    if call_name(e) == "hstack" and ax is not None:
        return None
    a = e.args[0]
    while isinstance(a, ast.Call) and call_name(a) in ("tuple", "list") and len(a.args) == 1:
        a = a.args[0]
    if isinstance(a, (ast.ListComp, ast.GeneratorExp)):
        if len(a.generators) != 1 or a.generators[0].ifs or not isinstance(a.generators[0].target, ast.Name):
            return None
        t = a.generators[0].target.id
        elt = a.elt
        while isinstance(elt, ast.Call) and call_name(elt) in ("asarray", "array", "atleast_1d") and elt.args:
            elt = elt.args[0]
        if isinstance(elt, ast.Name) and elt.id == t:
            return a.generators[0].iter
        return None
    return a


def _seq_env(stmts: list[ast.stmt], upto: ast.stmt):
    """Symbolic straight-line resolution of one statement list up to `upto`:
    env: name -> expression (earlier names substituted); stores: name -> [(index, rhs)]."""
    env: dict[str, ast.expr] = {}
    stores: dict[str, list[tuple[ast.expr, ast.expr]]] = {}
    for s in stmts:
        if s is upto:
            break
        if isinstance(s, ast.AnnAssign) and s.value is not None and isinstance(s.target, ast.Name):
            env[s.target.id] = subst(s.value, env)  # type: ignore[assignment]
            stores.pop(s.target.id, None)
        elif isinstance(s, ast.Assign) and len(s.targets) == 1:
            t = s.targets[0]
            if isinstance(t, ast.Name):
                env[t.id] = subst(s.value, env)  # type: ignore[assignment]
                stores.pop(t.id, None)
                if isinstance(s.value, ast.Name) and s.value.id in stores:   # `value = ungrouped`: same object
                    stores[t.id] = list(stores[s.value.id])
                    if s.value.id in env:
                        env[t.id] = env[s.value.id]
            elif isinstance(t, ast.Subscript) and isinstance(t.value, ast.Name):
                stores.setdefault(t.value.id, []).append((subst(t.slice, env), subst(s.value, env)))  # type: ignore[arg-type]
            else:
                for nm in [x.id for x in assigned_targets(s) if isinstance(x, ast.Name)]:
                    env.pop(nm, None)
        elif isinstance(s, (ast.AugAssign, ast.For, ast.While, ast.If, ast.With, ast.Try)):
            # anything assigned in a compound statement is no longer known
            for sub in ast.walk(s):
                if isinstance(sub, ast.stmt):
                    for x in assigned_targets(sub):
                        r = x
                        while isinstance(r, (ast.Subscript, ast.Attribute)):
                            r = r.value
                        if isinstance(r, ast.Name):
                            env.pop(r.id, None)
                            stores[r.id] = stores.get(r.id, []) + [(ast.Constant(value="?"), ast.Constant(value="?"))]
    return env, stores


def _block_of(pm: dict, stmt: ast.stmt) -> list[ast.stmt]:
    par = pm[stmt]
    for fld in ("body", "orelse", "finalbody"):
        lst = getattr(par, fld, None)
        if isinstance(lst, list) and any(x is stmt for x in lst):
            return lst
    raise Undecided("statement block not found")


def _stmt_of(pm: dict, node: ast.AST) -> ast.stmt:
    while not isinstance(node, ast.stmt):
        node = pm[node]
    return node


def _is_attr(e: ast.expr, attr: str) -> bool:
    return isinstance(e, ast.Attribute) and e.attr == attr


# ----------------------------------------------------------------------------------------

def _role_keep(fn: ast.FunctionDef) -> set[str]:
    """Nested helpers the rules analyse by role (whatever they are called): never inlined."""
    out = set()
    for n in ast.walk(fn):
        if isinstance(n, ast.FunctionDef) and n is not fn:
            names = {call_name(c) for c in ast.walk(n) if isinstance(c, ast.Call)}
            if names & {"set_solution_values", "get_solution_values", "ravel", "reshape", "flatten", "hstack"}:
                out.add(n.name)
    return out


def run(ctx: Ctx) -> None:
    exp = ctx.repo.module(EXP)
    E = exp.cls("Exporter")
    norm = Normalizer(exp)
    raw = {n: exp.func(f"Exporter.{n}") for n in
           ("_write", "import_state_from_vtu", "import_from_pvd", "write_pvd", "_export_mdg_pvd", "_export_data_vtu",
            "_update_meshio_geom", "_sort_and_unify_data", "_make_file_name", "_num_grid_entities")}
    keep = set(KEEP)
    for f in raw.values():
        keep |= _role_keep(f)
    # normalised deep copies: private one-level helpers inlined, aliases / module constants propagated, idioms unified
    F = {n: norm.function(f, E, inline=True, keep=keep) for n, f in raw.items()}
    global _HELPERS
    _HELPERS = (norm, E)
    savers = _nested(F["import_state_from_vtu"], lambda f: any(call_name(c) == "set_solution_values" for c in calls_in(f)))
    if len(savers) != 1:
        raise AnchorError(f"{EXP}: per-grid saver (nested function calling set_solution_values) not found in import_state_from_vtu")
    saver = savers[0]
    tables = _geometry_tables(ctx, exp, F)                      # {'subdomains': attr, 'interfaces': attr}
    _r1_gather_scatter(ctx, exp, F, saver, tables)
    _r2_iteration(ctx, exp, F, saver)
    _r3_renumbering(ctx, exp, E, norm, keep)
    _r4_vector_format(ctx, exp, F)
    _r5_time_information(ctx)
    _r6_pvd(ctx, exp, F)
    _r7_latest_step(ctx, exp, F)
    if ctx.tier == "thorough":
        _notes(ctx, exp, F)


# ---------------- R7 (added by the coordinator): the restored step is the numerically latest one -----

def _r7_latest_step(ctx: Ctx, exp, F) -> None:
    """import_from_pvd collects the `timestep` attribute strings of all DataSet entries and restores the files
    of the *latest* one.  The strings must be ordered as numbers: ordering them as strings puts "10.0" before
    "9.0", so with more than ten steps a stale state is restored.  Accepted: max(..., key=float),
    sorted(..., key=float)[-1], or any ordering applied to values converted with float() first."""
    fn = F["import_from_pvd"]
    q = "Exporter.import_from_pvd"
    ORDER = ("max", "min", "sorted", "unique", "sort", "argsort", "argmax")

    def mentions_timestep(e: ast.AST) -> bool:
        return any(isinstance(n, ast.Constant) and n.value == "timestep" for n in ast.walk(e))

    # the collection of time step strings: a list appended in a loop, or a comprehension
    collections: dict[str, list[ast.expr]] = {}
    for c in ast.walk(fn):
        if isinstance(c, ast.Call) and call_name(c) == "append" and c.args and isinstance(c.func, ast.Attribute) \
                and isinstance(c.func.value, ast.Name) and mentions_timestep(c.args[0]):
            collections.setdefault(c.func.value.id, []).append(c.args[0])
    for st in stmts_local(fn):
        if isinstance(st, ast.Assign) and len(st.targets) == 1 and isinstance(st.targets[0], ast.Name) \
                and isinstance(st.value, (ast.ListComp, ast.SetComp, ast.GeneratorExp)) and mentions_timestep(st.value.elt):
            collections.setdefault(st.targets[0].id, []).append(st.value.elt)
    sel = None
    for st in stmts_local(fn):
        if isinstance(st, ast.Assign) and len(st.targets) == 1 and isinstance(st.targets[0], ast.Name):
            e = inline_locals(fn, st.value, stop=list(collections))
            ocs = [n for n in ast.walk(e) if isinstance(n, ast.Call) and call_name(n) in ORDER
                   and (any(nm in collections for a_ in n.args for nm in names_in(a_)) or any(mentions_timestep(a_) for a_ in n.args))]
            if ocs:
                sel = (st, e, ocs)
                break
    if sel is None:
        if not collections:
            raise AnchorError(f"{q}: collection of the timestep attributes not found")
        raise Undecided(f"{q}: cannot find how the restart time step is selected from {sorted(collections)}")
    st, e, order_calls = sel
    txt = u(e)
    is_float = lambda n: isinstance(n, ast.Call) and isinstance(n.func, ast.Name) and n.func.id == "float"  # noqa: E731
    numeric = any(is_float(n) for elts in collections.values() for x in elts for n in ast.walk(x))
    for oc in order_calls:
        k = kwarg(oc, "key")
        if k is not None and u(k) == "float":
            numeric = True
        if any(is_float(n) for a_ in oc.args for n in ast.walk(a_)):
            numeric = True
        if any(isinstance(n, ast.Call) and call_name(n) in ("astype", "asarray", "array") and "float" in u(n) for a_ in oc.args for n in ast.walk(a_)):
            numeric = True
    latest = any(call_name(oc) in ("max", "argmax") for oc in order_calls) or txt.rstrip().endswith("[-1]")
    ctx.check("R7", numeric and latest, exp, q, st,
              f"the restart time step is selected by `{txt}`: the time steps are strings and must be ordered as numbers "
              f"(lexicographically '10.0' < '9.0': with steps 0..10 step 9 is restored)" if not numeric else
              f"the selection `{txt}` does not pick the latest step", construct=f"{q}: selection of the latest time step",
              facts={"selection": txt, "numeric_order": numeric})
    ctx.sample({"rule": "R7", "selection": txt})


# ---------------- geometry tables ---------------------------------------------------------------

def _mdg_calls(fn: ast.AST, which: str) -> list[ast.Call]:
    return [c for c in ast.walk(fn) if isinstance(c, ast.Call) and isinstance(c.func, ast.Attribute)
            and c.func.attr == which and u(c.func.value) == "self._mdg"]


def _geometry_tables(ctx: Ctx, exp, F) -> dict[str, str]:
    fn = F["_update_meshio_geom"]
    out: dict[str, str] = {}
    for loop in [s for s in body_nodoc(fn) if isinstance(s, ast.For)]:
        kinds = [k for k in ("subdomains", "interfaces") if _mdg_calls(loop, k)]
        stores = [t for s in ast.walk(loop) if isinstance(s, ast.Assign) for t in s.targets
                  if isinstance(t, ast.Subscript) and isinstance(t.value, ast.Attribute) and u(t.value.value) == "self"]
        if len(kinds) == 1 and len(stores) == 1:
            out[kinds[0]] = stores[0].value.attr
    if set(out) != {"subdomains", "interfaces"} or len(set(out.values())) != 2:
        raise AnchorError(f"{EXP}:Exporter._update_meshio_geom: subdomain/interface geometry tables not identified")
    ctx.sample({"rule": "tables", **out})
    return out


def _table_of(e: ast.expr) -> str | None:
    if isinstance(e, ast.Subscript) and isinstance(e.value, ast.Attribute) and u(e.value.value) == "self":
        return e.value.attr
    return None


def _geom_choice(fn: ast.AST, e: ast.expr):
    """`self.T1[dim] if <test> else self.T2[dim]` (expression, or the same as an if/else statement assigning the
    variable `e` names) -> (test expr, T1, T2)."""
    if isinstance(e, ast.Name):
        v = single_assign_value(fn, e.id)
        if v is not None:
            return _geom_choice(fn, v)
        for iff in [s for s in ast.walk(fn) if isinstance(s, ast.If) and len(s.body) == 1 and len(s.orelse) == 1]:
            a, b = iff.body[0], iff.orelse[0]
            if all(isinstance(x, (ast.Assign, ast.AnnAssign)) and [u(t) for t in assigned_targets(x)] == [e.id] for x in (a, b)) \
                    and _table_of(a.value) and _table_of(b.value):
                return iff.test, _table_of(a.value), _table_of(b.value)
        return None
    if isinstance(e, ast.IfExp) and _table_of(e.body) and _table_of(e.orelse):
        return e.test, _table_of(e.body), _table_of(e.orelse)
    # tables = self.T1 if <test> else self.T2 ; geometry = tables[dim]
    if isinstance(e, ast.Subscript):
        b = e.value
        if isinstance(b, ast.Name):
            b = single_assign_value(fn, b.id)
        if isinstance(b, ast.IfExp) and all(isinstance(x, ast.Attribute) and u(x.value) == "self" for x in (b.body, b.orelse)):
            return b.test, b.body.attr, b.orelse.attr
    return None


def _positive(test: ast.expr) -> tuple[str, bool]:
    """-> (text of the un-negated test, polarity)."""
    pol = True
    while isinstance(test, ast.UnaryOp) and isinstance(test.op, ast.Not):
        test, pol = test.operand, not pol
    return u(test), pol


def _kinds_in(stmts: list[ast.stmt]) -> set[str]:
    return {k for k in ("subdomains", "interfaces") for x in stmts if _mdg_calls(x, k)}


def _kind_when(scope: ast.AST, test: ast.expr) -> str | None:
    """Which grids does `scope` fetch from the mdg when `test` holds?  Understands if/else, swapped arms
    (`if not test`), conditional expressions and an early-returning arm followed by the other case."""
    want, pol = _positive(test)
    pm = parent_map(scope)
    for n in ast.walk(scope):
        when_true = when_false = None
        if isinstance(n, ast.If) and _positive(n.test)[0] == want:
            p2 = _positive(n.test)[1]
            kb, ke = _kinds_in(n.body), _kinds_in(n.orelse)
            if not n.orelse and n.body and isinstance(n.body[-1], (ast.Return, ast.Continue, ast.Raise)):
                blk = None
                par = pm.get(n)
                for fld in ("body", "orelse", "finalbody"):
                    lst = getattr(par, fld, None)
                    if isinstance(lst, list) and any(x is n for x in lst):
                        blk = lst
                if blk is not None:
                    ke = _kinds_in(blk[[i for i, x in enumerate(blk) if x is n][0] + 1:])
            if len(kb) == 1 and len(ke) == 1 and kb != ke:
                when_true, when_false = (next(iter(kb)), next(iter(ke))) if p2 else (next(iter(ke)), next(iter(kb)))
        elif isinstance(n, ast.IfExp) and _positive(n.test)[0] == want:
            p2 = _positive(n.test)[1]
            kb = {k for k in ("subdomains", "interfaces") if _mdg_calls(n.body, k)}
            ke = {k for k in ("subdomains", "interfaces") if _mdg_calls(n.orelse, k)}
            if len(kb) == 1 and len(ke) == 1 and kb != ke:
                when_true, when_false = (next(iter(kb)), next(iter(ke))) if p2 else (next(iter(ke)), next(iter(kb)))
        if when_true is not None:
            return when_true if pol else when_false
    return None


# ---------------- R1 ----------------------------------------------------------------------------

_HELPERS = None   # (Normalizer, Exporter class) of the current run: lets block expressions look through helper calls


def _expand_block(e: ast.expr, scope: ast.AST, depth: int = 0) -> list[ast.expr]:
    """Alternatives a block expression can take: both arms of a conditional expression; for a local name, every value
    assigned to it inside `scope`."""
    if depth > 4:
        return [e]
    if isinstance(e, ast.IfExp):
        return _expand_block(e.body, scope, depth + 1) + _expand_block(e.orelse, scope, depth + 1)
    if isinstance(e, ast.Call) and _HELPERS is not None:
        # a private helper picking the block (possibly with early returns): its returned expressions
        rets = _HELPERS[0].helper_returns(e, _HELPERS[1], keep=KEEP)
        if rets:
            return [x for r in rets for x in _expand_block(r, scope, depth + 1)]
    if isinstance(e, ast.Name):
        vals = [s.value for s in ast.walk(scope) if isinstance(s, (ast.Assign, ast.AnnAssign)) and getattr(s, "value", None) is not None
                and [u(t) for t in assigned_targets(s)] == [e.id]]
        if vals:
            return [x for v in vals for x in _expand_block(v, scope, depth + 1)]
    return [e]


def _writer_sites(w: ast.FunctionDef):
    """Places where _write builds the per-block data: (ids variable, geometry parameter, block expressions, node)."""
    wp = _params(w)
    sites = []
    for n in walk_local(w):
        if isinstance(n, ast.For) and _is_attr(n.iter, "cell_ids") and isinstance(n.iter.value, ast.Name) and n.iter.value.id in wp \
                and isinstance(n.target, ast.Name):
            elts = [x for c in calls_in(n) if isinstance(c.func, ast.Attribute) and c.func.attr == "append" and len(c.args) == 1
                    for x in _expand_block(c.args[0], n)]
            sites.append((n.target.id, n.iter.value.id, elts, n))
        if isinstance(n, (ast.ListComp, ast.GeneratorExp)) and len(n.generators) == 1 and _is_attr(n.generators[0].iter, "cell_ids") \
                and isinstance(n.generators[0].iter.value, ast.Name) and n.generators[0].iter.value.id in wp \
                and isinstance(n.generators[0].target, ast.Name) and not n.generators[0].ifs:
            sites.append((n.generators[0].target.id, n.generators[0].iter.value.id, _expand_block(n.elt, n), n))
    return sites


def _r1_gather_scatter(ctx: Ctx, exp, F, saver, tables) -> None:
    # ---- writer ----
    w = F["_write"]
    qw = "Exporter._write"
    wp = _params(w)
    sites = _writer_sites(w)
    if not sites or len({g for _, g, _, _ in sites}) != 1:
        raise Undecided(f"{qw}: no loop/comprehension `for ids in <geometry parameter>.cell_ids` building the blocks found")
    geom_param = sites[0][1]
    all_ids = {i for i, _, _, _ in sites}
    if not any(elts for _, _, elts, _ in sites):
        raise Undecided(f"{qw}: no block built inside the iteration over cell_ids")
    w_transposes: set[int] = set()
    for ids, _, elts, node in sites:
        for blk in elts:
            e, t = _strip_T(blk)
            if not isinstance(e, ast.Subscript):
                raise Undecided(f"{qw}: block `{u(blk)}` is not a subscript of the field values")
            sl = e.slice
            if ids not in names_in(sl):
                ok, axis = False, -1  # an index that does not involve the block's ids cannot select the block's cells
            elif isinstance(sl, ast.Name):
                ok, axis = sl.id == ids, 0
            elif isinstance(sl, ast.Tuple) and len(sl.elts) == 2 and ((isinstance(sl.elts[0], ast.Slice) and u(sl.elts[0]) in (":", "::"))
                                                                     or (isinstance(sl.elts[0], ast.Constant) and sl.elts[0].value is Ellipsis)):
                ok, axis = isinstance(sl.elts[1], ast.Name) and sl.elts[1].id == ids, 1
                w_transposes.add(t)
            else:
                raise Undecided(f"{qw}: gather index `{u(sl)}` not recognised")
            ctx.check("R1", ok, exp, qw, blk,
                      f"each block must hold the values of its own cells: the field values gathered with the iteration variable `{ids}` "
                      f"on the cell axis; found {u(blk)}", construct=f"_write block: {u(blk)}",
                      facts={"axis": axis, "transposes": t})
    # point data: no permutation on the writer side
    pt_bad = [s for s in stmts_local(w) if isinstance(s, ast.Assign) and any(u(t).startswith("point_data[") for t in s.targets)
              and (all_ids & names_in(s.value)) and not any(s in list(ast.walk(n)) for _, _, _, n in sites if isinstance(n, ast.stmt))]
    ctx.check("R1", not pt_bad, exp, qw, pt_bad[0] if pt_bad else w,
              "point data must not be permuted by cell ids", construct=u(pt_bad[0]) if pt_bad else "_write: point data unpermuted")
    # geometry handed to _write
    dv = F["_export_data_vtu"]
    wcalls = [c for c in calls_in(dv) if u(c.func) == "self._write"]
    if len(wcalls) != 1:
        raise AnchorError(f"{EXP}:Exporter._export_data_vtu: call of self._write not found")
    pos = wp.index(geom_param) - 1
    garg = wcalls[0].args[pos] if pos < len(wcalls[0].args) else kwarg(wcalls[0], geom_param)
    if garg is None:
        raise Undecided("Exporter._export_data_vtu: geometry argument of _write not found")
    _check_table_choice(ctx, exp, dv, "Exporter._export_data_vtu", garg, tables, "writer")

    # ---- reader ----
    r = F["import_state_from_vtu"]
    qr = "Exporter.import_state_from_vtu"
    pm = parent_map(r)
    calls = [c for c in ast.walk(r) if isinstance(c, ast.Call) and isinstance(c.func, ast.Name) and c.func.id == saver.name]
    by_kind: dict[str, list[ast.Call]] = {}
    for c in calls:
        if len(c.args) < 3 or not isinstance(c.args[2], ast.Constant):
            raise Undecided(f"{qr}: call {u(c)[:60]} without a literal entity type")
        by_kind.setdefault(c.args[2].value, []).append(c)
    if "cells" not in by_kind:
        raise AnchorError(f"{qr}: no call of {saver.name}(..., 'cells')")
    geom_vars: set[str] = set()
    for c in by_kind["cells"]:
        st = _stmt_of(pm, c)
        env, stores = _seq_env(_block_of(pm, st), st)
        key, val = c.args[0], c.args[1]
        if not isinstance(val, ast.Name):
            raise Undecided(f"{qr}: value passed to {saver.name} is not a local name")
        verdict, why, gv = _classify_reader_value(val.id, u(key), env, stores, r)
        if verdict is None:
            raise Undecided(f"{qr}: cannot classify how `{val.id}` is obtained from the cell blocks ({why})")
        if gv:
            geom_vars.add(gv)
        ctx.check("R1", verdict, exp, qr, st,
                  f"cell data: {why}. _write stores block b as values[cell_ids[b]]; the reader must scatter the concatenated "
                  f"blocks back through the concatenated cell_ids before chopping per grid",
                  construct=f"reader cell value: {why}", facts={"value": u(env.get(val.id)) if val.id in env else None,
                                                                 "stores": [(u(i), u(v)[:80]) for i, v in stores.get(val.id, [])]})
        ctx.sample({"rule": "R1", "reader": why})
    for c in by_kind.get("nodes", []):
        st = _stmt_of(pm, c)
        env, stores = _seq_env(_block_of(pm, st), st)
        val = c.args[1]
        e = env.get(val.id) if isinstance(val, ast.Name) else val
        if e is None:
            raise Undecided(f"{qr}: point value not resolved")
        uses_ids = any(_is_attr(n, "cell_ids") for n in ast.walk(e)) or bool(stores.get(getattr(val, "id", ""), []))
        ok = not uses_ids and any(_is_attr(n, "point_data") for n in ast.walk(e))
        ctx.check("R1", ok, exp, qr, st, f"point data is written unpermuted and must be read unpermuted from point_data; found {u(e)}",
                  construct=f"reader point value: {u(e)}")
    # geometry used by the reader
    for gv in sorted(geom_vars):
        _check_table_choice(ctx, exp, r, qr, ast.Name(id=gv, ctx=ast.Load()), tables, "reader", saver)
    if not geom_vars and any(o.ok for o in ctx.obligations if o.rule == "R1" and "reader cell value" in o.desc):
        raise Undecided(f"{qr}: scatter accepted but geometry variable unknown")


def _classify_reader_value(name: str, key: str, env, stores, fn):
    """-> (ok | None, description, geometry variable).  False only for positively recognised wrong forms."""
    stop = _params(fn)

    def staged(e: ast.expr, pred):
        """Apply pred to e with function-level single-assignment locals inlined one level at a time."""
        for _ in range(8):
            r = pred(e)
            if r:
                return r
            e2 = inline_locals(fn, e, stop=stop, depth=1)
            if u(e2) == u(e):
                break
            e = e2
        return None

    def full(e: ast.expr) -> ast.expr:
        # resolve plain names only (an expression that is a bare local name)
        for _ in range(8):
            if isinstance(e, ast.Name) and e.id not in stop and single_assign_value(fn, e.id) is not None:
                e = single_assign_value(fn, e.id)
            else:
                break
        return e

    def blocks(e):  # concatenation of <vtu>.cell_data[key]
        def pred(x):
            src = _concat_source(x)
            return (src is not None and isinstance(src, ast.Subscript) and _is_attr(src.value, "cell_data") and u(src.slice) == key)
        return bool(staged(e, pred))

    def ids_src(e):  # concatenation of <geom>.cell_ids -> geometry variable name
        def pred(x):
            src = _concat_source(x)
            if src is not None and isinstance(src, ast.Name) and src.id not in stop and single_assign_value(fn, src.id) is not None:
                src = single_assign_value(fn, src.id)
            if src is not None and _is_attr(src, "cell_ids") and isinstance(src.value, ast.Name):
                return src.value.id
            return None
        return staged(e, pred)

    e = env.get(name)
    st = stores.get(name, [])
    if e is None:
        return None, "value not assigned in the block of the call", None
    e = full(e)
    if not st:
        if blocks(e):
            return False, "blocks are concatenated and chopped without undoing the per-cell-type gather", None
        if isinstance(e, ast.Subscript) and blocks(e.value):
            idx = full(e.slice)
            if isinstance(idx, ast.Call) and call_name(idx) == "argsort" and idx.args and ids_src(idx.args[0]):
                return True, "gather of the concatenated blocks through argsort(concatenated cell_ids)", ids_src(idx.args[0])
            if ids_src(idx):
                return False, "concatenated blocks are gathered with cell_ids again (applies the permutation twice instead of inverting it)", ids_src(idx)
        return (None, f"unrecognised expression {u(e)[:80]}", None)
    if len(st) == 1 and isinstance(e, ast.Call) and call_name(e) in ("empty_like", "zeros_like", "empty", "zeros"):
        idx, rhs = full(st[0][0]), st[0][1]
        if not blocks(rhs):
            return None, f"scattered right-hand side {u(rhs)[:60]} is not the concatenation of cell_data[{key}]", None
        gv = ids_src(idx)
        if gv:
            return True, "scatter of the concatenated blocks through the concatenated cell_ids", gv
        if isinstance(idx, ast.Call) and call_name(idx) == "argsort" and idx.args and ids_src(idx.args[0]):
            return False, "scatter through argsort(cell_ids) (the permutation itself, not its inverse)", ids_src(idx.args[0])
        return None, f"scatter index {u(idx)[:80]} not recognised", None
    return None, "several stores into the value", None


def _check_table_choice(ctx: Ctx, exp, fn, q, ge, tables, side, saver=None) -> None:
    ch = _geom_choice(fn, ge)
    if ch is None:
        raise Undecided(f"{q}: geometry `{u(ge)[:80]}` is not `self.<table>[dim] if <flag> else self.<table>[dim]`")
    test, t_true, t_false = ch
    # which grids are iterated when <test> is true?
    it_true = _kind_when(saver if saver is not None else fn, test)
    if it_true is None:
        raise Undecided(f"{q}: no branch on `{u(test)}` choosing between subdomains and interfaces found")
    it_false = "interfaces" if it_true == "subdomains" else "subdomains"
    ok = tables[it_true] == t_true and tables[it_false] == t_false
    ctx.check("R1", ok, exp, q, ge,
              f"{side}: under `{u(test)}` the {it_true} are iterated, whose geometry (cell_ids) is stored in self.{tables[it_true]}; "
              f"found self.{t_true} (and self.{t_false} otherwise)",
              construct=f"{side} geometry: self.{t_true} if {u(test)} else self.{t_false}")


# ---------------- R2 ----------------------------------------------------------------------------

def _norm_iter_call(ctx: Ctx, c: ast.Call, which: str) -> dict[str, str]:
    mdg = ctx.repo.module(MDG)
    sig = _params(mdg.func(f"MixedDimensionalGrid.{which}"))[1:]
    out: dict[str, str] = {}
    for i, a in enumerate(c.args):
        if isinstance(a, ast.Starred) or i >= len(sig):
            raise Undecided(f"iteration call {u(c)} not normalisable")
        out[sig[i]] = u(a)
    for k in c.keywords:
        if k.arg is None:
            raise Undecided(f"iteration call {u(c)} uses **kwargs")
        out[k.arg] = u(k.value)
    out.pop("return_data", None)
    return {k: v for k, v in out.items() if v != "None"}


def _r2_iteration(ctx: Ctx, exp, F, saver) -> None:
    sides = {"geometry": (F["_update_meshio_geom"], "Exporter._update_meshio_geom"),
             "writer": (F["_export_data_vtu"], "Exporter._export_data_vtu"),
             "reader": (saver, f"Exporter.import_state_from_vtu.{saver.name}")}
    norm: dict[tuple[str, str], tuple[dict, ast.Call]] = {}
    for side, (fn, q) in sides.items():
        for which in ("subdomains", "interfaces"):
            cs = _mdg_calls(fn, which)
            if len(cs) != 1:
                raise Undecided(f"{q}: expected one self._mdg.{which}(...) call, found {len(cs)}")
            norm[(side, which)] = (_norm_iter_call(ctx, cs[0], which), cs[0])
    for which in ("subdomains", "interfaces"):
        ref = norm[("geometry", which)][0]
        for side in ("writer", "reader"):
            got, call = norm[(side, which)]
            ctx.check("R2", got == ref, exp, sides[side][1], call,
                      f"{side} iterates {which} with {got}, the geometry (cell_ids, offsets) was built over {ref}: "
                      f"the concatenated data and the cell numbering refer to different grid lists",
                      construct=f"{side} {which}: {u(call)}", facts={"side": got, "geometry": ref},
                      desc=f"{side} iterates {which} with the arguments the geometry was built with ({ref})")
    # writer stacking keeps the order of the entities
    dv = F["_export_data_vtu"]
    bf = _nested(dv, lambda f: any(call_name(c) == "hstack" for c in calls_in(f)))
    if len(bf) != 1:
        raise Undecided("Exporter._export_data_vtu: stacking helper not found")
    bf = bf[0]
    bp = _params(bf)
    loops = [s for s in stmts_local(bf) if isinstance(s, ast.For)]
    hs = [c for c in calls_in(bf) if call_name(c) == "hstack"]
    ok = False
    why = "no loop"
    if len(loops) == 1 and len(hs) == 1 and isinstance(loops[0].iter, ast.Name) and loops[0].iter.id in bp:
        acc = u(hs[0].args[0]) if hs[0].args else ""
        apps = [c for c in calls_in(loops[0]) if isinstance(c.func, ast.Attribute) and c.func.attr == "append" and u(c.func.value) == acc]
        ok = len(apps) == 1
        why = f"for {u(loops[0].target)} in {u(loops[0].iter)}: {acc}.append(...); np.hstack({acc})"
        # the helper is called with the iterated entities
        ecalls = [c for c in calls_in(dv) if isinstance(c.func, ast.Name) and c.func.id == bf.name]
        pos = bp.index(loops[0].iter.id)
        ent_args = {u(c.args[pos]) for c in ecalls if pos < len(c.args)}
        try:
            ent_name = u(_enclosing_assign_target(dv, norm[("writer", "subdomains")][1]))
        except Undecided:
            ent_name = None
        ok = ok and (ent_name is None or ent_args == {ent_name})
    elif loops:
        why = f"loop iterates {u(loops[0].iter)}"
    ctx.check("R2", ok, exp, f"Exporter._export_data_vtu.{bf.name}", hs[0] if hs else bf,
              f"per-dimension data must be stacked in the order of the iterated grids ({why})", construct=f"writer stacking: {why}")
    # reader loops
    sp = _params(saver)
    if len(sp) < 3:
        raise AnchorError("saver signature")
    valp, entp = sp[1], sp[2]
    q = sides["reader"][1]
    # grid loops of the saver: `for g, d in self._mdg.<kind>(...)`, or over a name bound to such calls in if/else arms
    loops: list[tuple[ast.For, list[tuple[str, ast.Call]]]] = []
    for lp in [x for x in ast.walk(saver) if isinstance(x, ast.For)]:
        kinds = [(k, c) for k in ("subdomains", "interfaces") for c in _mdg_calls(lp.iter, k)]
        if not kinds and isinstance(lp.iter, ast.Name):
            for st in stmts_local(saver):
                if isinstance(st, (ast.Assign, ast.AnnAssign)) and getattr(st, "value", None) is not None \
                        and any(isinstance(t, ast.Name) and t.id == lp.iter.id for t in assigned_targets(st)):
                    kinds += [(k, c) for k in ("subdomains", "interfaces") for c in _mdg_calls(st.value, k)]
        if kinds:
            loops.append((lp, kinds))
    if {k for _, ks in loops for k, _ in ks} != {"subdomains", "interfaces"} or len(loops) > 2:
        raise Undecided(f"{q}: grid loops over subdomains and interfaces not found ({len(loops)} loop(s))")
    w_slot = _writer_slot(ctx, F["_sort_and_unify_data"])
    for loop, kinds in loops:
        which = "/".join(sorted({k for k, _ in kinds}))
        if not (isinstance(loop.target, ast.Tuple) and len(loop.target.elts) == 2 and all(isinstance(x, ast.Name) for x in loop.target.elts)):
            raise Undecided(f"{q}: loop target {u(loop.target)} is not (grid, data)")
        gvar, dvar = loop.target.elts[0].id, loop.target.elts[1].id
        for k, call in kinds:
            rd = _call_args(ctx, call, MDG, f"MixedDimensionalGrid.{k}", skip_self=True).get("return_data")
            if not (rd is not None and isinstance(rd, ast.Constant) and rd.value is True):
                raise Undecided(f"{q}: loop over {k} without return_data=True")
        _check_offsets(ctx, exp, q, saver, loop, which, valp, entp, gvar)
        sets = [c for c in calls_in(loop) if call_name(c) == "set_solution_values"]
        if len(sets) != 1:
            raise Undecided(f"{q}: expected one set_solution_values per loop")
        sargs = _call_args(ctx, sets[0], ADU, "set_solution_values")
        slot = {k: u(v) for k, v in sargs.items() if k in ("time_step_index", "iterate_index") and u(v) != "None"}
        dtxt = u(sargs["data"]) if "data" in sargs else None
        ctx.check("R2", slot == w_slot and dtxt == dvar, exp, q, sets[0],
                  f"reader must store into the data dictionary of the grid it chopped for and into the solution slot the "
                  f"exporter reads ({w_slot}); found slot {slot}, data={dtxt} (loop data variable {dvar})",
                  construct=f"reader slot ({which}): {slot} data={dtxt}")


def _call_args(ctx: Ctx, call: ast.Call, rel: str, qual: str, skip_self: bool = False) -> dict[str, ast.expr]:
    """Arguments of a call by parameter name, using the callee's signature from the repository."""
    try:
        sig = _params(ctx.repo.module(rel).func(qual))
    except AnchorError:
        sig = []
    if skip_self and sig:
        sig = sig[1:]
    out: dict[str, ast.expr] = {}
    for i, a in enumerate(call.args):
        if isinstance(a, ast.Starred) or i >= len(sig):
            raise Undecided(f"call {u(call)[:70]} cannot be matched to the signature of {qual}")
        out[sig[i]] = a
    for k in call.keywords:
        if k.arg is None:
            raise Undecided(f"call {u(call)[:70]} uses **kwargs")
        out[k.arg] = k.value
    return out


def _enclosing_assign_target(fn, call: ast.Call) -> ast.expr:
    for s in stmts_local(fn):
        if isinstance(s, (ast.Assign, ast.AnnAssign)) and getattr(s, "value", None) is call:
            return assigned_targets(s)[0]
    raise Undecided("iteration result is not assigned to a name")


def _writer_slot(ctx: Ctx, fn) -> dict[str, str]:
    slots = set()
    for c in ast.walk(fn):
        if isinstance(c, ast.Call) and call_name(c) == "get_solution_values":
            a = _call_args(ctx, c, ADU, "get_solution_values")
            slots.add(tuple(sorted((k, u(v)) for k, v in a.items() if k in ("time_step_index", "iterate_index") and u(v) != "None")))
    if len(slots) != 1:
        raise Undecided(f"exporter reads solution values from {len(slots)} different slots")
    return dict(slots.pop())


def _check_offsets(ctx: Ctx, exp, q, saver, loop: ast.For, which, valp, entp, gvar) -> None:
    top = loop.body
    slices = [n for n in ast.walk(loop) if isinstance(n, ast.Subscript) and isinstance(n.value, ast.Name) and n.value.id == valp
              and isinstance(n.slice, ast.Slice)]
    if len(slices) != 1:
        raise Undecided(f"{q}: expected one slice of `{valp}` in the {which} loop, found {len(slices)}")
    sl = slices[0].slice
    if not (isinstance(sl.lower, ast.Name) and sl.step is None and sl.upper is not None):
        raise Undecided(f"{q}: slice {u(slices[0])} is not value[offset : offset + n]")
    off = sl.lower.id
    up = sl.upper
    n_expr = None
    if isinstance(up, ast.BinOp) and isinstance(up.op, ast.Add):
        if u(up.left) == off:
            n_expr = up.right
        elif u(up.right) == off:
            n_expr = up.left
    facts = {"slice": u(slices[0])}
    problems = []
    if n_expr is None:
        problems.append(f"upper bound {u(up)} is not {off} + n")
    else:
        # n = self._num_grid_entities(<grid>, <entity type param>)
        ne = n_expr
        if isinstance(ne, ast.Name):
            defs = [s for s in top if isinstance(s, ast.Assign) and any(isinstance(t, ast.Name) and t.id == ne.id for t in s.targets)]
            if len(defs) != 1:
                raise Undecided(f"{q}: `{ne.id}` is not assigned exactly once at the top of the {which} loop")
            ne = defs[0].value
        if not (isinstance(ne, ast.Call) and u(ne.func) == "self._num_grid_entities" and len(ne.args) == 2):
            raise Undecided(f"{q}: chunk length {u(ne)} is not self._num_grid_entities(grid, entity type)")
        facts["n"] = u(ne)
        if u(ne.args[0]) != gvar:
            problems.append(f"chunk length is computed for `{u(ne.args[0])}`, not for the loop's grid `{gvar}`")
        if u(ne.args[1]) != entp:
            problems.append(f"chunk length counts {u(ne.args[1])}, the data lives on `{entp}`")
    incs = [s for s in ast.walk(loop) if isinstance(s, ast.AugAssign) and isinstance(s.target, ast.Name) and s.target.id == off]
    top_incs = [s for s in top if s in incs]
    facts["increments"] = [u(s) for s in incs]
    if len(incs) != 1 or len(top_incs) != 1:
        problems.append(f"`{off}` must be advanced exactly once per grid, unconditionally (found {len(incs)} increments, "
                        f"{len(top_incs)} at loop level)")
    else:
        inc = top_incs[0]
        if not isinstance(inc.op, ast.Add) or (n_expr is not None and u(inc.value) != u(n_expr)):
            problems.append(f"`{u(inc)}` does not advance by the chunk length {u(n_expr) if n_expr is not None else '?'}")
        use_stmt = [s for s in top if slices[0] in list(ast.walk(s))]
        if use_stmt and top.index(inc) < top.index(use_stmt[0]):
            problems.append(f"`{u(inc)}` precedes the slice that uses `{off}`")
    inits = [s for s in stmts_local(saver) if isinstance(s, ast.Assign) and any(isinstance(t, ast.Name) and t.id == off for t in s.targets)]
    if len(inits) > 1 or (len(inits) == 1 and not (isinstance(inits[0].value, ast.Constant) and inits[0] in saver.body)):
        raise Undecided(f"{q}: `{off}` is (re)assigned in a way that is not a single literal initialisation: "
                        f"{[u(s) for s in inits]}")
    if not inits or inits[0].value.value != 0:
        problems.append(f"`{off}` is not initialised to 0 before the loops")
    ctx.check("R2", not problems, exp, q, loop,
              f"reader chops the concatenated data per grid ({which}): " + "; ".join(problems),
              construct=f"reader offsets ({which}): " + ("ok" if not problems else "; ".join(problems)), facts=facts,
              desc=f"reader chops value[{off}:{off}+n] per grid ({which}) and advances {off} by n once, after use")


# ---------------- R3 ----------------------------------------------------------------------------

def _root_name(e: ast.AST) -> str | None:
    while True:
        if isinstance(e, (ast.Subscript, ast.Attribute)):
            e = e.value
        elif isinstance(e, ast.Call) and isinstance(e.func, ast.Attribute) and e.func.attr in ("setdefault", "get"):
            e = e.func.value
        else:
            break
    return e.id if isinstance(e, ast.Name) else None


def _r3_renumbering(ctx: Ctx, exp, E: ast.ClassDef, norm, keep) -> None:
    n = 0
    for raw_fn in [s for s in E.body if isinstance(s, ast.FunctionDef)]:
        if not any(isinstance(r, ast.Return) and isinstance(r.value, ast.Call) and call_name(r.value) == "Meshio_Geom" for r in stmts_local(raw_fn)):
            continue
        fn = norm.function(raw_fn, E, inline=True, keep=keep, local_consts=False)  # keep `offset = 0` visible
        rets = [r for r in stmts_local(fn) if isinstance(r, ast.Return) and isinstance(r.value, ast.Call) and call_name(r.value) == "Meshio_Geom"]
        if not rets:
            continue
        ps = _params(fn)
        if len(ps) < 2:
            continue
        grids = ps[1]
        loops = [s for s in fn.body if isinstance(s, ast.For) and isinstance(s.iter, ast.Name) and s.iter.id == grids
                 and isinstance(s.target, ast.Name)]
        q = f"Exporter.{fn.name}"
        if len(rets) != 1 or len(rets[0].value.args) != 3 or len(loops) != 1:
            raise Undecided(f"{q}: builder shape not recognised (returns {len(rets)}, grid loops {len(loops)})")
        n += 1
        loop = loops[0]
        g = loop.target.id
        # names contributing to the cell-id list (3rd component)
        S = set(names_in(rets[0].value.args[2]))
        changed = True
        while changed:
            changed = False
            for s in stmts_local(fn):
                add: set[str] = set()
                if isinstance(s, ast.Assign) and any(isinstance(t, ast.Name) and t.id in S for t in s.targets):
                    add = names_in(s.value)
                for c in calls_in(s) if isinstance(s, ast.Expr) else []:
                    if isinstance(c.func, ast.Attribute) and c.func.attr in ("append", "extend") and isinstance(c.func.value, ast.Name) \
                            and c.func.value.id in S:
                        add |= set().union(*[names_in(a) for a in c.args]) if c.args else set()
                if not add <= S:
                    S |= add
                    changed = True
        accs = []     # statements extending the cell-id containers inside the grid loop
        acc_val = {}  # id(statement) -> expression that is appended
        for s in ast.walk(loop):
            val = None
            if isinstance(s, ast.AugAssign) and isinstance(s.op, ast.Add):
                r = _root_name(s.target)
                if r in S and (not isinstance(s.target, ast.Name) or not _is_counter(s)):
                    val = s.value
            elif isinstance(s, ast.Expr) and isinstance(s.value, ast.Call) and isinstance(s.value.func, ast.Attribute) \
                    and s.value.func.attr == "extend" and len(s.value.args) == 1 and _root_name(s.value.func.value) in S:
                val = s.value.args[0]   # ids.extend(...) / ids.setdefault(k, []).extend(...)
            elif isinstance(s, ast.Assign) and len(s.targets) == 1 and isinstance(s.targets[0], (ast.Subscript, ast.Name)) \
                    and _root_name(s.targets[0]) in S and isinstance(s.value, ast.BinOp) and isinstance(s.value.op, ast.Add) \
                    and _root_name(s.targets[0]) in names_in(s.value):
                val = s.value            # ids[k] = ids.get(k, []) + ...
            if val is not None:
                accs.append(s)
                zero0 = [t.id for z in fn.body if isinstance(z, ast.Assign) and isinstance(z.value, ast.Constant) and z.value.value == 0
                         for t in z.targets if isinstance(t, ast.Name)]
                acc_val[id(s)] = inline_locals(fn, val, stop=list(ps) + zero0)
        top = loop.body
        problems: list[str] = []
        facts: dict = {"grids": grids, "accumulators": [u(a) for a in accs]}
        if not accs:
            # identity numbering over the total number of cells
            ident = False
            for s in fn.body:
                if isinstance(s, (ast.Assign, ast.AnnAssign)) and getattr(s, "value", None) is not None and \
                        any(isinstance(t, ast.Name) and t.id in S for t in assigned_targets(s)):
                    for c in [x for x in ast.walk(s.value) if isinstance(x, ast.Call) and call_name(x) in ("range", "arange") and len(x.args) == 1]:
                        tot = inline_locals(fn, c.args[0], stop=ps)
                        if call_name(tot) == "sum" if isinstance(tot, ast.Call) else False:
                            txt = u(tot)
                            if f".num_cells for " in txt and f" in {grids}" in txt:
                                ident = True
                                facts["identity_over"] = txt
            if not ident:
                raise Undecided(f"{q}: neither per-grid cell-id accumulation nor identity numbering over the total found")
        for a in accs:
            zero_init = {t.id for s in fn.body if isinstance(s, ast.Assign) and isinstance(s.value, ast.Constant) and s.value.value == 0
                         for t in s.targets if isinstance(t, ast.Name)}
            aval = acc_val[id(a)]
            own = _root_name(a.targets[0]) if isinstance(a, ast.Assign) else None
            cands = [nm for nm in sorted(names_in(aval))
                     if nm in zero_init or any(isinstance(s, ast.AugAssign) and isinstance(s.target, ast.Name) and s.target.id == nm
                                               for s in ast.walk(loop))]
            if not cands:
                adds = [x for x in ast.walk(aval) if isinstance(x, ast.BinOp) and isinstance(x.op, ast.Add)
                        and not (own and own in names_in(x.left) and x is aval)]
                if adds:
                    raise Undecided(f"{q}: `{u(a)}` adds something that is not a running offset")
                problems.append(f"`{u(a)}`: cell ids of a grid are not shifted by the number of cells of the previous grids")
                continue
            for o in cands:
                incs = [s for s in ast.walk(loop) if isinstance(s, ast.AugAssign) and isinstance(s.target, ast.Name) and s.target.id == o]
                tinc = [s for s in top if s in incs]
                facts.setdefault("offsets", {})[o] = [u(s) for s in incs]
                if len(incs) != 1 or len(tinc) != 1:
                    problems.append(f"offset `{o}` must advance exactly once per grid at loop level")
                    continue
                v = tinc[0].value
                good = u(v) == f"{g}.num_cells" or (isinstance(v, ast.Call) and u(v.func) == "self._num_grid_entities"
                                                     and [u(x) for x in v.args] == [g, "'cells'"])
                if not (isinstance(tinc[0].op, ast.Add) and good):
                    problems.append(f"`{u(tinc[0])}`: the cell offset must advance by {g}.num_cells")
                holder = [s for s in top if a in list(ast.walk(s))]
                if holder and top.index(tinc[0]) < top.index(holder[0]):
                    problems.append(f"`{u(tinc[0])}` precedes `{u(a)[:50]}` (ids of the first grid would start at its own size)")
                inits = [s for s in stmts_local(fn) if isinstance(s, ast.Assign) and any(isinstance(t, ast.Name) and t.id == o for t in s.targets)]
                if len(inits) != 1 or not isinstance(inits[0].value, ast.Constant) or inits[0] not in fn.body:
                    raise Undecided(f"{q}: offset `{o}` is not initialised by a single literal assignment: {[u(s) for s in inits]}")
                if inits[0].value.value != 0 or fn.body.index(inits[0]) > fn.body.index(loop):
                    problems.append(f"offset `{o}` is not initialised to 0 before the grid loop")
        ctx.check("R3", not problems, exp, q, loop,
                  "cell_ids index the per-dimension concatenation of all grids: " + "; ".join(problems),
                  construct=f"{fn.name} cell numbering: " + ("ok" if not problems else "; ".join(problems)), facts=facts,
                  desc=f"{fn.name}: cell ids of grid k are shifted by the cells of grids 0..k-1")
    if n < 4:
        raise AnchorError(f"{EXP}: Meshio_Geom builders not found")


def _is_counter(s: ast.AugAssign) -> bool:
    v = s.value
    return isinstance(v, ast.Constant) or (isinstance(v, ast.Attribute) and v.attr.startswith("num_"))


# ---------------- R4 ----------------------------------------------------------------------------

def _order_of(call: ast.Call, pos: int) -> str:
    o = kwarg(call, "order")
    if o is None and pos < len(call.args):
        o = call.args[pos]
    if o is None:
        return "C"
    if isinstance(o, ast.Constant) and o.value in ("C", "F"):
        return o.value
    raise Undecided(f"order flag {u(o)} is not a literal 'C'/'F'")


def _r4_vector_format(ctx: Ctx, exp, F) -> None:
    def has(names):
        return lambda f: any(call_name(c) in names for c in calls_in(f))
    tv = _nested(F["_sort_and_unify_data"], has({"reshape"}))
    fv = [f for f in _nested(F["import_state_from_vtu"], has({"ravel", "flatten", "reshape"})) if not has({"set_solution_values"})(f)] \
        or _nested(F["import_state_from_vtu"], has({"ravel", "flatten"}))
    if len(tv) != 1 or len(fv) != 1:
        raise AnchorError(f"{EXP}: vector-format conversion of the writer (reshape) / reader (ravel) not found")
    tv, fv = tv[0], fv[0]
    if len(_params(tv)) < 2:
        raise Undecided("writer vector-format helper: expected (value, num_dofs)")
    nd = _params(tv)[1]
    resh = [c for c in calls_in(tv) if call_name(c) == "reshape"]
    if len(resh) != 1:
        raise Undecided("_to_vector_format: expected one reshape")
    rc = resh[0]
    shape = rc.args[1] if dotted(rc.func) in ("np.reshape", "numpy.reshape") and len(rc.args) > 1 else (rc.args[0] if rc.args else None)
    if shape is None:
        raise Undecided("_to_vector_format: reshape target not found")
    o_w = _order_of(rc, 2 if dotted(rc.func) in ("np.reshape", "numpy.reshape") else 1)
    shape_ok = isinstance(shape, ast.Tuple) and len(shape.elts) == 2 and u(shape.elts[0]) == "-1" and u(shape.elts[1]) == nd
    ctx.check("R4", shape_ok, exp, "Exporter._sort_and_unify_data._to_vector_format", rc,
              f"vector data is brought to (components, {nd}) - cells on the last axis, as _write's `[:, ids]` gather and the "
              f"hstack over grids assume; found {u(shape)}", construct=f"_to_vector_format shape {u(shape)} order {o_w}")
    # transposes applied by _write to 2-d data (cell and point arms must agree)
    w = F["_write"]
    ts_cell, ts_pt = set(), set()
    for _, _, elts, _ in _writer_sites(w):
        for blk in elts:
            e, t = _strip_T(blk)
            if isinstance(e, ast.Subscript) and isinstance(e.slice, ast.Tuple):
                ts_cell.add(t)
    for s in stmts_local(w):
        if isinstance(s, ast.If) and "ndim == 2" in u(s.test):
            for st in s.body:
                if isinstance(st, ast.Assign) and any(u(t).startswith("point_data[") for t in st.targets):
                    ts_pt.add(_strip_T(st.value)[1])
        if isinstance(s, ast.If):
            for sub in [x for x in ast.walk(s) if isinstance(x, ast.If) and "ndim == 2" in u(x.test)]:
                for st in sub.body:
                    if isinstance(st, ast.Assign) and any(u(t).startswith("point_data[") for t in st.targets):
                        ts_pt.add(_strip_T(st.value)[1])
    if len(ts_cell) != 1:
        raise Undecided(f"_write: 2-d cell arm transposes {sorted(ts_cell)}")
    t = ts_cell.pop()
    if ts_pt:
        ctx.check("R4", ts_pt == {t}, exp, "Exporter._write", w,
                  f"2-d cell data is transposed {t} time(s) but 2-d point data {sorted(ts_pt)}; both are read back by one "
                  f"_from_vector_format", construct=f"_write transposes: cell {t}, point {sorted(ts_pt)}")
    rav = [c for c in calls_in(fv) if call_name(c) in ("ravel", "flatten", "reshape")]
    if len(rav) != 1:
        raise Undecided("_from_vector_format: expected one ravel/flatten/reshape")
    rv = rav[0]
    if call_name(rv) == "reshape":
        tgt = rv.args[1] if dotted(rv.func) in ("np.reshape", "numpy.reshape") and len(rv.args) > 1 else (rv.args[0] if rv.args else None)
        if tgt is None or u(tgt) not in ("-1", "(-1,)"):
            raise Undecided(f"_from_vector_format: reshape target {u(tgt) if tgt is not None else None} is not a flattening")
        o_r = _order_of(rv, 2 if dotted(rv.func) in ("np.reshape", "numpy.reshape") else 1)
    else:
        o_r = _order_of(rv, 1 if dotted(rv.func) in ("np.ravel", "numpy.ravel") else 0)
    want = o_w if t % 2 == 0 else ("C" if o_w == "F" else "F")
    ctx.check("R4", o_r == want, exp, "Exporter.import_state_from_vtu._from_vector_format", rv,
              f"writer reshapes flat data to (components, cells) with order={o_w!r} and _write transposes it {t} time(s); the "
              f"reader receives (cells, components) chunks and must flatten with order={want!r}, found {o_r!r}",
              construct=f"vector format: write order {o_w}, transposes {t}, read order {o_r}")
    ctx.sample({"rule": "R4", "write_order": o_w, "transposes": t, "read_order": o_r})


# ---------------- R5 ----------------------------------------------------------------------------

def _r5_time_information(ctx: Ctx) -> None:
    tm = ctx.repo.module(TSC)
    tnorm = Normalizer(tm)
    TM = tm.cls("TimeManager")
    wfn = tnorm.function(tm.func("TimeManager.write_time_information"), TM)
    lfn = tnorm.function(tm.func("TimeManager.load_time_information"), TM)
    sfn = tnorm.function(tm.func("TimeManager.set_time_and_dt_from_exported_steps"), TM)
    dumps = [c for c in calls_in(wfn) if dotted(c.func) in ("json.dump", "json.dumps")]
    if len(dumps) != 1 or not dumps[0].args:
        raise Undecided("write_time_information: json.dump call not found")
    darg = dumps[0].args[0]
    if isinstance(darg, ast.Name):
        darg = single_assign_value(wfn, darg.id) or darg
    pairs: list[tuple[ast.expr | None, ast.expr]] = []
    if isinstance(darg, ast.Dict):
        pairs = list(zip(darg.keys, darg.values))
    elif isinstance(darg, ast.Call) and u(darg.func) == "dict" and not darg.args and all(k.arg for k in darg.keywords):
        pairs = [(ast.Constant(value=k.arg), k.value) for k in darg.keywords]
    else:
        raise Undecided(f"write_time_information: dumped object `{u(darg)[:60]}` is not a dict literal")
    written: dict[str, str] = {}
    for k, v in pairs:
        if not (isinstance(k, ast.Constant) and isinstance(k.value, str) and isinstance(v, ast.Attribute) and u(v.value) == "self"):
            raise Undecided(f"write_time_information: entry {u(k) if k else None}: {u(v)} is not 'key': self.<attr>")
        written[k.value] = v.attr
    loads = [s for s in stmts_local(lfn) if isinstance(s, (ast.Assign, ast.AnnAssign)) and isinstance(getattr(s, "value", None), ast.Call)
             and dotted(s.value.func) in ("json.load", "json.loads")]
    if len(loads) != 1 or len(assigned_targets(loads[0])) != 1 or not isinstance(assigned_targets(loads[0])[0], ast.Name):
        raise Undecided("load_time_information: json.load not found")
    dvar = assigned_targets(loads[0])[0].id
    read: dict[str, str] = {}
    for s in stmts_local(lfn):
        if isinstance(s, ast.Assign) and isinstance(s.value, ast.Subscript) and u(s.value.value) == dvar:
            k = s.value.slice
            t = s.targets[0]
            if not (isinstance(k, ast.Constant) and isinstance(t, ast.Attribute) and u(t.value) == "self"):
                raise Undecided(f"load_time_information: {u(s)} not of the form self.<attr> = data['key']")
            read[k.value] = t.attr
    qw, ql = "TimeManager.write_time_information", "TimeManager.load_time_information"
    ctx.check("R5", set(read) == set(written), tm, ql, lfn,
              f"JSON keys read {sorted(read)} != keys written {sorted(written)}", construct=f"json keys read {sorted(read)} written {sorted(written)}",
              desc="JSON keys read == keys written")
    for k in sorted(set(read) | set(written)):
        ctx.check("R5", read.get(k) == written.get(k), tm, ql, lfn,
                  f"key {k!r} is written from self.{written.get(k)} but read into self.{read.get(k)}",
                  construct=f"json key {k!r}: write self.{written.get(k)} read self.{read.get(k)}",
                  desc=f"key {k!r} bound to the same attribute on write and read")
    # lock-step bookkeeping on write: each dumped list is appended once, from the matching scalar
    src: dict[str, str] = {}
    for attr in written.values():
        apps = [c for c in calls_in(wfn) if isinstance(c.func, ast.Attribute) and c.func.attr == "append" and u(c.func.value) == f"self.{attr}"]
        if len(apps) != 1:
            ctx.check("R5", False, tm, qw, wfn, f"self.{attr} must be appended exactly once per call (found {len(apps)}): time and "
                      f"dt histories get out of step", construct=f"append self.{attr} x{len(apps)}")
            continue
        scal = {n.attr for n in ast.walk(apps[0].args[0]) if isinstance(n, ast.Attribute) and u(n.value) == "self"}
        if len(scal) != 1:
            raise Undecided(f"{qw}: appended value {u(apps[0].args[0])[:60]} reads {sorted(scal)}")
        src[attr] = scal.pop()
    # restore: self.<scalar> = self.<list>[i] with the list fed from that scalar; one index; same truncation
    idxs, truncs = set(), set()
    for s in stmts_local(sfn):
        if isinstance(s, ast.Assign) and isinstance(s.targets[0], ast.Attribute) and u(s.targets[0].value) == "self" \
                and isinstance(s.value, ast.Subscript) and isinstance(s.value.value, ast.Attribute) and u(s.value.value.value) == "self":
            tgt, lst, sl = s.targets[0].attr, s.value.value.attr, s.value.slice
            if lst not in src:
                continue
            if isinstance(sl, ast.Slice):
                truncs.add((tgt == lst, u(sl)))
                if tgt != lst:
                    ctx.check("R5", False, tm, "TimeManager.set_time_and_dt_from_exported_steps", s,
                              f"history self.{tgt} is overwritten with a slice of self.{lst}", construct=u(s))
            else:
                idxs.add(u(sl))
                ctx.check("R5", src[lst] == tgt, tm, "TimeManager.set_time_and_dt_from_exported_steps", s,
                          f"self.{tgt} is restored from self.{lst}, which records self.{src[lst]}",
                          construct=f"restore self.{tgt} <- self.{lst}[{u(sl)}] (records self.{src[lst]})")
    if not idxs:
        raise AnchorError("set_time_and_dt_from_exported_steps: restore statements not found")
    ctx.check("R5", len(idxs) == 1 and len({t[1] for t in truncs}) <= 1 and len(truncs) in (0, 1), tm,
              "TimeManager.set_time_and_dt_from_exported_steps", sfn,
              f"time and dt must be restored with one index and both histories truncated alike; indices {sorted(idxs)}, "
              f"truncations {sorted(t[1] for t in truncs)}", construct=f"restore indices {sorted(idxs)} truncations {sorted(t[1] for t in truncs)}")
    ctx.sample({"rule": "R5", "written": written, "read": read, "sources": src})


# ---------------- R6 ----------------------------------------------------------------------------

def _templates(fn) -> tuple[set[str], set[str]]:
    tags, attrs = set(), set()
    for n in ast.walk(fn):
        if isinstance(n, ast.Constant) and isinstance(n.value, str) and "<DataSet" in n.value:
            tags |= set(re.findall(r"<(\w+)\s", n.value))
            attrs |= set(re.findall(r"(\w+)=\"", n.value))
    return tags, attrs


def _r6_pvd(ctx: Ctx, exp, F) -> None:
    r = F["import_from_pvd"]
    q = "Exporter.import_from_pvd"
    rp = _params(r)
    branch = [s for s in body_nodoc(r) if isinstance(s, ast.If) and _positive(s.test)[0] in rp and "mdg" in _positive(s.test)[0]]
    if len(branch) != 1:
        raise AnchorError(f"{q}: branch on the mdg-pvd flag not found")
    mdg_body, ts_body = (branch[0].body, branch[0].orelse) if _positive(branch[0].test)[1] else (branch[0].orelse, branch[0].body)
    if not mdg_body or not ts_body:
        raise Undecided(f"{q}: branch on the mdg-pvd flag has an empty arm")
    pairs = [("mdg pvd", mdg_body, F["_export_mdg_pvd"], "Exporter._export_mdg_pvd"),
             ("time-series pvd", ts_body, F["write_pvd"], "Exporter.write_pvd")]

    def tag_iters(scope: ast.AST) -> list[ast.Call]:
        return [c for c in ast.walk(scope) if isinstance(c, ast.Call) and isinstance(c.func, ast.Attribute)
                and c.func.attr in ("iter", "findall", "iterfind") and c.args and isinstance(c.args[0], ast.Constant)
                and isinstance(c.args[0].value, str)]

    # collections of attribute dictionaries built once for both branches: X = [e.attrib for e in tree.iter("DataSet")]
    shared_colls = {t.id for st in body_nodoc(r) if isinstance(st, (ast.Assign, ast.AnnAssign)) and getattr(st, "value", None) is not None
                    and isinstance(st.value, (ast.ListComp, ast.GeneratorExp)) and _is_attr(st.value.elt, "attrib")
                    for t in assigned_targets(st) if isinstance(t, ast.Name)}
    shared_iters = [c for st in body_nodoc(r) if st is not branch[0] for c in tag_iters(st)]
    for label, body, wfn, wq in pairs:
        tags, attrs = _templates(wfn)
        if not tags or not attrs:
            raise AnchorError(f"{wq}: <DataSet .../> template not found")
        wrap = ast.Module(body=body, type_ignores=[])
        its = tag_iters(wrap) or shared_iters
        if not its:
            raise Undecided(f"{q}: {label} branch does not iterate XML elements by a literal tag")
        for c in its:
            tag = c.args[0].value.split("/")[-1]
            ctx.check("R6", tag in tags, exp, q, c, f"{label}: reader iterates <{tag}> elements, {wq} writes {sorted(tags)}",
                      construct=f"{label}: iter({tag!r})")
        # names bound to <elem>.attrib
        avars = {t.id for s in ast.walk(wrap) if isinstance(s, ast.Assign) and _is_attr(s.value, "attrib") for t in s.targets if isinstance(t, ast.Name)}
        # ... or iterating a collection of attribute dictionaries (loop / comprehension target)
        for n in ast.walk(wrap):
            gens = n.generators if isinstance(n, (ast.ListComp, ast.GeneratorExp, ast.SetComp, ast.DictComp)) else []
            pairs_ = [(g.target, g.iter) for g in gens] + ([(n.target, n.iter)] if isinstance(n, ast.For) else [])
            for tg, it in pairs_:
                if isinstance(tg, ast.Name) and isinstance(it, ast.Name) and it.id in shared_colls:
                    avars.add(tg.id)
        keys = []
        for n in ast.walk(wrap):
            if isinstance(n, ast.Subscript) and isinstance(n.slice, ast.Constant) and isinstance(n.slice.value, str) and \
                    ((isinstance(n.value, ast.Name) and n.value.id in avars) or _is_attr(n.value, "attrib")):
                keys.append(n)
            if isinstance(n, ast.Call) and isinstance(n.func, ast.Attribute) and n.func.attr == "get" and n.args and isinstance(n.args[0], ast.Constant) \
                    and ((isinstance(n.func.value, ast.Name) and n.func.value.id in avars) or _is_attr(n.func.value, "attrib")):
                keys.append(n)
        if not keys:
            raise Undecided(f"{q}: {label} branch reads no attribute")
        seen = set()
        for n in keys:
            k = n.slice.value if isinstance(n, ast.Subscript) else n.args[0].value
            if k in seen:
                continue
            seen.add(k)
            ctx.check("R6", k in attrs, exp, q, n, f"{label}: reader reads attribute {k!r}; {wq} writes attributes {sorted(attrs)}",
                      construct=f"{label}: attribute {k!r}")
        ctx.sample({"rule": "R6", "branch": label, "writer_attrs": sorted(attrs), "read": sorted(seen)})
    # time index cut from the file stem with the padding it was written with
    mk = F["_make_file_name"]
    zf = [c for c in calls_in(mk) if isinstance(c.func, ast.Attribute) and c.func.attr == "zfill" and c.args]
    cut = [n for n in ast.walk(branch[0]) if isinstance(n, ast.Subscript) and isinstance(n.slice, ast.Slice) and _is_attr(n.value, "stem")]
    if len(zf) != 1 or len(cut) != 1:
        raise Undecided(f"{q}: zero padding on write / stem slice on read not found")
    lower = cut[0].slice.lower
    ok = isinstance(lower, ast.UnaryOp) and isinstance(lower.op, ast.USub) and u(lower.operand) == u(zf[0].args[0]) and cut[0].slice.upper is None
    ctx.check("R6", ok, exp, q, cut[0], f"time index is written with zfill({u(zf[0].args[0])}) at the end of the stem; reader cuts {u(cut[0])}",
              construct=f"time index: zfill({u(zf[0].args[0])}) vs {u(cut[0])}")
    # file-name grammar  <stem>[_appendix]_<dim>[_<time>]
    mp = _params(mk)
    rets = [s for s in stmts_local(mk) if isinstance(s, ast.Return)]
    if len(rets) != 1:
        raise Undecided("Exporter._make_file_name: one return expected")
    parts = None
    for n in ast.walk(rets[0]):
        if isinstance(n, ast.BinOp) and isinstance(n.op, ast.Add):
            flat = _flatten_add(n)
            if parts is None or len(flat) > len(parts):
                parts = flat
        if isinstance(n, ast.JoinedStr):
            flat = [v.value for v in n.values if isinstance(v, ast.FormattedValue)]
            if parts is None or len(flat) > len(parts):
                parts = flat
    if not parts:
        raise Undecided("Exporter._make_file_name: name is not a concatenation")
    role: dict[str, int] = {}
    for i, p in enumerate(parts):
        e = inline_locals(mk, p, stop=mp) if not isinstance(p, str) else None
        if e is None:
            continue
        nm = names_in(e)
        for par, key in (("dim", "dim"), ("time_step", "time"), ("appendix", "appendix")):
            if par in mp and par in nm:
                role[key] = i
    if not {"dim", "time"} <= set(role):
        raise Undecided(f"Exporter._make_file_name: dim/time components not identified in {[u(p) for p in parts]}")
    ctx.check("R6", role.get("appendix", -1) < role["dim"] < role["time"], exp, "Exporter._make_file_name", rets[0],
              "file names must read <stem>[_appendix]_<dim>[_<time step>]: import_state_from_vtu takes the dimension from the "
              "last numeric piece, or the one before it when two numeric pieces end the name, and looks for 'mortar' right "
              "before the dimension", construct=f"file name order: {sorted(role, key=role.get)}")
    rs = F["import_state_from_vtu"]
    dp = [s for s in stmts_local(rs) if isinstance(s, ast.Assign) and isinstance(s.value, ast.IfExp)
          and {u(s.value.body), u(s.value.orelse)} == {"-2", "-1"}]
    if len(dp) != 1:
        raise Undecided("import_state_from_vtu: position rule of the dimension piece not found")
    v = dp[0].value
    vtest, vpol = v.test, True
    while isinstance(vtest, ast.UnaryOp) and isinstance(vtest.op, ast.Not):
        vtest, vpol = vtest.operand, not vpol
    vtest = inline_locals(rs, vtest, stop=_params(rs))
    if not (isinstance(vtest, ast.Call) and call_name(vtest) == "isnumeric" and isinstance(vtest.func.value, ast.Subscript)):
        raise Undecided(f"import_state_from_vtu: test `{u(v.test)}` of the dimension position is not <pieces>[k].isnumeric()")
    when_numeric, otherwise = (u(v.body), u(v.orelse)) if vpol else (u(v.orelse), u(v.body))
    ok = when_numeric == "-2" and otherwise == "-1" and u(vtest.func.value.slice) == "-2"
    ctx.check("R6", ok, exp, "Exporter.import_state_from_vtu", dp[0],
              "the dimension is the second to last piece exactly when that piece is numeric (a time step follows it)",
              construct=f"dimension position: {u(v)}")


def _flatten_add(e: ast.expr) -> list[ast.expr]:
    if isinstance(e, ast.BinOp) and isinstance(e.op, ast.Add):
        return _flatten_add(e.left) + _flatten_add(e.right)
    return [e]


# ---------------- notes ---------------------------------------------------------------------------

def _notes(ctx: Ctx, exp, F) -> None:
    r = F["import_from_pvd"]
    # latest time step chosen by ordering *strings*
    for c in calls_in(r):
        if call_name(c) == "unique" and c.args and isinstance(c.args[0], ast.Name):
            lst = c.args[0].id
            apps = [a for a in calls_in(r) if isinstance(a.func, ast.Attribute) and a.func.attr == "append" and u(a.func.value) == lst]
            if apps and all(not any(isinstance(x, ast.Call) and call_name(x) in ("float", "int") for x in ast.walk(a.args[0])) for a in apps):
                ctx.note("observation (suspected defect, not part of the claimed clauses): import_from_pvd picks the 'latest' time step "
                         "as np.unique(<list of timestep attribute strings>)[-1], i.e. by lexicographic order of '%f' strings "
                         "('10.000000' < '9.000000'); with times 0..10 the state of t=9 is restored")
    rets = [s for s in stmts_local(r) if isinstance(s, ast.Assign) and u(s.targets[0]) == "time_index"]
    if any("float(" in u(s.value) for s in rets):
        ctx.note("observation: in the time-series branch import_from_pvd returns int(float(timestep attribute)) as the time "
                 "*index*; write_pvd_and_vtu writes physical times into that attribute (times=exported_times), so the index "
                 "is only right when time == step number")
    pf = [f for f in exp.cls("Exporter").body if isinstance(f, ast.FunctionDef) and f.name == "_export_polyhedron_3d"]
    if pf:
        loop = [s for s in pf[0].body if isinstance(s, ast.For)]
        if loop and "nodes_offset" in {n.id for n in ast.walk(loop[0]) if isinstance(n, ast.Name)}:
            used = [n for s in ast.walk(loop[0]) if isinstance(s, ast.AugAssign) and u(s.target).startswith("cell_to_faces")
                    for n in ast.walk(s.value) if isinstance(n, ast.Name) and n.id == "nodes_offset"]
            if not used:
                ctx.note("observation: _export_polyhedron_3d advances nodes_offset but never adds it to the face-node indices "
                         "(connectivity of a second polyhedral 3-d grid would point into the first grid's points); does not "
                         "affect the cell-data round trip")


# ----------------------------------------------------------------------------------------
def _m(name, old, new, rule, control=False, count=1, file=EXP):
    return dict(name=name, file=file, old=old, new=new, rule=rule, control=control, count=count)


_FIX = ("                    grouped_value = np.concatenate(\n                        tuple(vtu_data.cell_data[key]), axis=0\n                    )\n"
        "                    # On export, the cells were grouped by cell type, see _write. Undo\n"
        "                    # this reordering to retrieve the cell ordering of the grids.\n"
        "                    cell_ids = np.concatenate(\n                        [np.asarray(ids, dtype=int) for ids in meshio_geometry.cell_ids]\n                    )\n"
        "                    value = np.empty_like(grouped_value)\n                    value[cell_ids] = grouped_value\n")

MUTANTS = [
    _m("revert-fix-latest-step-lexicographic", "restart_timestep_str = max(timesteps, key=float)", "restart_timestep_str = np.unique(timesteps)[-1]", "R7", control=True),
    _m("latest-step-is-first", "restart_timestep_str = max(timesteps, key=float)", "restart_timestep_str = min(timesteps, key=float)", "R7"),
    _m("revert-fix-reader-no-scatter", _FIX,
       "                    value = np.concatenate(tuple(vtu_data.cell_data[key]), axis=0)\n", "R1", control=True),
    _m("reader-gathers-instead-of-scatter", "                    value = np.empty_like(grouped_value)\n                    value[cell_ids] = grouped_value\n",
       "                    value = grouped_value[cell_ids]\n", "R1"),
    _m("reader-scatter-through-argsort", "                    value[cell_ids] = grouped_value\n", "                    value[np.argsort(cell_ids)] = grouped_value\n", "R1"),
    _m("reader-wrong-geometry-table", "                self.meshio_geom[dim] if is_subdomain_data else self.m_meshio_geom[dim]\n            )\n            assert isinstance",
       "                self.m_meshio_geom[dim] if is_subdomain_data else self.meshio_geom[dim]\n            )\n            assert isinstance", "R1"),
    _m("writer-1d-block-gets-all-values", "                    cell_data[field.name].append(field.values[ids])\n",
       "                    cell_data[field.name].append(field.values[:])\n", "R1", ),
    _m("reader-interfaces-without-codim", "                    for intf, intf_data in self._mdg.interfaces(\n                        dim=dim, return_data=True, codim=1\n                    ):\n                        num_dofs",
       "                    for intf, intf_data in self._mdg.interfaces(\n                        dim=dim, return_data=True\n                    ):\n                        num_dofs", "R2"),
    _m("reader-interface-offset-not-advanced", "                            time_step_index=0,\n                        )\n\n                        offset += num_dofs\n",
       "                            time_step_index=0,\n                        )\n", "R2", control=True),
    _m("reader-offset-advanced-before-use", "                        num_dofs = self._num_grid_entities(sd, grid_entity_type)\n                        values = _from_vector_format(",
       "                        num_dofs = self._num_grid_entities(sd, grid_entity_type)\n                        offset += num_dofs\n                        values = _from_vector_format(", "R2"),
    _m("reader-chunk-counts-cells-for-nodes", "                        num_dofs = self._num_grid_entities(intf, grid_entity_type)\n",
       "                        num_dofs = self._num_grid_entities(intf, \"cells\")\n", "R2"),
    _m("reader-stores-to-iterate-slot", "                            name=key, values=values, data=sd_data, time_step_index=0\n",
       "                            name=key, values=values, data=sd_data, iterate_index=0\n", "R2"),
    _m("writer-iterates-all-dims", "                entities: list[Any] = self._mdg.subdomains(dim=dim)\n", "                entities: list[Any] = self._mdg.subdomains()\n", "R2"),
    _m("2d-cell-ids-not-shifted", "                cell_id[cell_type] += (cells + cell_offset).tolist()\n\n            # Determine cell-node connectivity for each cell type and all cells. Treat",
       "                cell_id[cell_type] += (cells).tolist()\n\n            # Determine cell-node connectivity for each cell type and all cells. Treat", "R3"),
    _m("polyhedron-offset-by-nodes", "            # Update offset\n            nodes_offset += grid.num_nodes\n            cell_offset += grid.num_cells\n\n        # Initialize the meshio data structure for the connectivity and cell ids.\n        meshio_cells = list()",
       "            # Update offset\n            nodes_offset += grid.num_nodes\n            cell_offset += grid.num_nodes\n\n        # Initialize the meshio data structure for the connectivity and cell ids.\n        meshio_cells = list()", "R3"),
    _m("0d-offset-dropped", "            nodes_offset += 1\n            cell_offset += grid.num_cells\n", "            nodes_offset += 1\n", "R3"),
    _m("reader-ravel-F", "            return np.ravel(value, \"C\")\n", "            return np.ravel(value, \"F\")\n", "R4"),
    _m("writer-reshape-C", "                value = np.reshape(value, (-1, num_dofs), order=\"F\")\n", "                value = np.reshape(value, (-1, num_dofs), order=\"C\")\n", "R4"),
    _m("write-2d-without-transpose", "                    cell_data[field.name].append(field.values[:, ids].T)\n", "                    cell_data[field.name].append(field.values[:, ids])\n", "R4"),
    _m("json-key-dt-renamed-on-write", '{"time": self.exported_times, "dt": self.exported_dt}', '{"time": self.exported_times, "step": self.exported_dt}', "R5", file=TSC),
    _m("json-keys-crossed-on-read", '            self.exported_times = data["time"]\n            self.exported_dt = data["dt"]\n',
       '            self.exported_times = data["dt"]\n            self.exported_dt = data["time"]\n', "R5", file=TSC),
    _m("dt-restored-from-times", "        self.dt = self.exported_dt[time_index]\n", "        self.dt = self.exported_times[time_index]\n", "R5", file=TSC),
    _m("pvd-attribute-renamed-on-write", "        fm = '\\t<DataSet group=\"\" part=\"\" timestep=\"%f\" file=\"%s\"/>\\n'\n",
       "        fm = '\\t<DataSet group=\"\" part=\"\" time=\"%f\" file=\"%s\"/>\\n'\n", "R6"),
    _m("mdg-pvd-reads-other-attribute", '                restart_vtu_files.append(str(data["file"]))\n', '                restart_vtu_files.append(str(data["name"]))\n', "R6"),
    _m("file-name-time-before-dim", "file_name.stem + appendix_extension + dim_extension + time_extension", "file_name.stem + appendix_extension + time_extension + dim_extension", "R6"),
]
