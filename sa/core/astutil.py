"""Small AST helpers shared by the rules."""
from __future__ import annotations

import ast
from typing import Callable, Iterable, Iterator, Optional


def u(node: ast.AST) -> str:
    """Normalised source text of a node (comments/formatting independent)."""
    return ast.unparse(node)


def dotted(node: ast.AST) -> Optional[str]:
    """`a.b.c` -> 'a.b.c' for Name/Attribute chains; None otherwise."""
    parts = []
    while isinstance(node, ast.Attribute):
        parts.append(node.attr)
        node = node.value
    if isinstance(node, ast.Name):
        parts.append(node.id)
        return ".".join(reversed(parts))
    return None


def walk_local(node: ast.AST, include_root: bool = True) -> Iterator[ast.AST]:
    """ast.walk that does not descend into nested function/class definitions/lambdas
    (the root itself may be a FunctionDef: its body is walked)."""
    stack = [node] if include_root else list(ast.iter_child_nodes(node))
    first = True
    while stack:
        n = stack.pop()
        yield n
        if not first and isinstance(
            n, (ast.FunctionDef, ast.AsyncFunctionDef, ast.ClassDef, ast.Lambda)
        ):
            continue
        first = False
        stack.extend(reversed(list(ast.iter_child_nodes(n))))


def calls_in(node: ast.AST, local: bool = True) -> Iterator[ast.Call]:
    it = walk_local(node) if local else ast.walk(node)
    for n in it:
        if isinstance(n, ast.Call):
            yield n


def call_name(call: ast.Call) -> Optional[str]:
    """Last attribute / name of the callee: `a.b.f(x)` -> 'f'."""
    f = call.func
    if isinstance(f, ast.Attribute):
        return f.attr
    if isinstance(f, ast.Name):
        return f.id
    return None


def call_dotted(call: ast.Call) -> Optional[str]:
    return dotted(call.func)


def kwarg(call: ast.Call, name: str) -> Optional[ast.expr]:
    for k in call.keywords:
        if k.arg == name:
            return k.value
    return None


def arg_or_kw(call: ast.Call, pos: int, name: str) -> Optional[ast.expr]:
    k = kwarg(call, name)
    if k is not None:
        return k
    if pos < len(call.args) and not any(isinstance(a, ast.Starred) for a in call.args[: pos + 1]):
        return call.args[pos]
    return None


def names_in(node: ast.AST) -> set[str]:
    return {n.id for n in ast.walk(node) if isinstance(n, ast.Name)}


def attrs_of(node: ast.AST, base: str = "self") -> set[str]:
    """Attribute names X such that `base.X` occurs in node."""
    out = set()
    for n in ast.walk(node):
        if isinstance(n, ast.Attribute) and isinstance(n.value, ast.Name) and n.value.id == base:
            out.add(n.attr)
    return out


def stmts_local(fn: ast.AST) -> Iterator[ast.stmt]:
    """All statements of a function in source order, not entering nested defs."""
    for n in walk_local(fn):
        if isinstance(n, ast.stmt) and n is not fn:
            yield n


def assigned_targets(stmt: ast.stmt) -> list[ast.expr]:
    """Flat list of assignment targets of a statement (tuples unpacked)."""
    out: list[ast.expr] = []

    def flat(t: ast.expr) -> None:
        if isinstance(t, (ast.Tuple, ast.List)):
            for e in t.elts:
                flat(e)
        elif isinstance(t, ast.Starred):
            flat(t.value)
        else:
            out.append(t)

    if isinstance(stmt, ast.Assign):
        for t in stmt.targets:
            flat(t)
    elif isinstance(stmt, (ast.AugAssign, ast.AnnAssign)):
        flat(stmt.target)
    elif isinstance(stmt, (ast.For, ast.AsyncFor)):
        flat(stmt.target)
    elif isinstance(stmt, (ast.With, ast.AsyncWith)):
        for it in stmt.items:
            if it.optional_vars is not None:
                flat(it.optional_vars)
    return out


def is_const(node: ast.AST, value=...) -> bool:
    if not isinstance(node, ast.Constant):
        return False
    return value is ... or node.value == value


def is_docstring(stmt: ast.stmt) -> bool:
    return isinstance(stmt, ast.Expr) and isinstance(stmt.value, ast.Constant) and isinstance(
        stmt.value.value, str
    )


def body_nodoc(fn: ast.FunctionDef) -> list[ast.stmt]:
    b = list(fn.body)
    if b and is_docstring(b[0]):
        b = b[1:]
    return b


def find_assign(fn: ast.AST, name: str) -> list[ast.stmt]:
    """All statements in fn (local) assigning the simple name `name`."""
    out = []
    for s in stmts_local(fn):
        for t in assigned_targets(s):
            if isinstance(t, ast.Name) and t.id == name:
                out.append(s)
    return out


def single_assign_value(fn: ast.AST, name: str) -> Optional[ast.expr]:
    """RHS if `name` is assigned exactly once by a plain `name = expr`."""
    a = find_assign(fn, name)
    if len(a) == 1 and isinstance(a[0], ast.Assign) and len(a[0].targets) == 1 and isinstance(
        a[0].targets[0], ast.Name
    ):
        return a[0].value
    if len(a) == 1 and isinstance(a[0], ast.AnnAssign) and a[0].value is not None:
        return a[0].value
    return None


def parent_map(root: ast.AST) -> dict[ast.AST, ast.AST]:
    pm: dict[ast.AST, ast.AST] = {}
    for p in ast.walk(root):
        for c in ast.iter_child_nodes(p):
            pm[c] = p
    return pm


def enclosing_stmt(pm: dict, node: ast.AST) -> ast.stmt:
    while not isinstance(node, ast.stmt):
        node = pm[node]
    return node


def subst(node: ast.AST, mapping: dict[str, ast.AST]) -> ast.AST:
    """Copy of node with Name ids in mapping replaced by the mapped expression."""
    import copy

    class T(ast.NodeTransformer):
        def visit_Name(self, n: ast.Name):
            if n.id in mapping and isinstance(n.ctx, ast.Load):
                return copy.deepcopy(mapping[n.id])
            return n

    return T().visit(copy.deepcopy(node))


def inline_locals(fn: ast.AST, expr: ast.expr, stop: Iterable[str] = (), depth: int = 8) -> ast.expr:
    """Inline straight-line single-assignment locals into expr (bounded)."""
    stop = set(stop)
    cur = expr
    for _ in range(depth):
        changed = False
        mapping = {}
        for nm in names_in(cur):
            if nm in stop:
                continue
            v = single_assign_value(fn, nm)
            if v is not None:
                mapping[nm] = v
                changed = True
        if not changed:
            break
        cur = subst(cur, mapping)  # type: ignore[assignment]
    return cur


def first_line(node: ast.AST) -> int:
    return getattr(node, "lineno", 0)


def iter_classes_with_base(tree: ast.Module, base_suffix: str) -> Iterator[ast.ClassDef]:
    for n in ast.walk(tree):
        if isinstance(n, ast.ClassDef):
            for b in n.bases:
                d = dotted(b) or u(b)
                if d.split(".")[-1] == base_suffix:
                    yield n


def methods(cls: ast.ClassDef) -> dict[str, ast.FunctionDef]:
    out: dict[str, ast.FunctionDef] = {}
    for s in cls.body:
        if isinstance(s, (ast.FunctionDef, ast.AsyncFunctionDef)):
            # keep the last non-overload definition
            is_ov = any(u(d).endswith("overload") for d in s.decorator_list)
            if s.name not in out or not is_ov:
                out[s.name] = s  # type: ignore[assignment]
    return out


def compare_parts(test: ast.expr) -> Optional[tuple[ast.expr, ast.cmpop, ast.expr]]:
    if isinstance(test, ast.Compare) and len(test.ops) == 1:
        return test.left, test.ops[0], test.comparators[0]
    return None


def unique(pred: Callable[[ast.AST], bool], root: ast.AST, what: str):
    from .loader import AnchorError

    hits = [n for n in walk_local(root) if pred(n)]
    if len(hits) != 1:
        raise AnchorError(f"expected exactly one {what}, found {len(hits)}")
    return hits[0]
