"""Statement-level control-flow graph for one Python function (hand-built; no CFG
library exists for Python in this sandbox).

Nodes are small integers; `cfg.stmt[n]` is the AST node the CFG node stands for:
  * simple statements: the statement itself
  * If/While: the node stands for the *test*; out-edges carry cond=True/False
  * For: the node stands for the iteration header (target <- next(iter)); out-edges
    cond=True (another item) / False (exhausted)
  * With: node for the context-manager items; Try: no node of its own
  * Match: node for the subject; each case gets a node for its pattern (cond=True into the
    body, cond=False to the next case)
ENTRY, EXIT (normal return, incl. falling off the end) and RAISE (uncaught explicit raise)
are synthetic.  Only *explicit* `raise` statements are exceptional edges, except that inside a
`try` body every statement may jump to each handler (conservative).  `finally` bodies are
inlined on the normal path; `return`/`break`/`continue` inside try-finally pass through a
copy of the edge into the finally block (approximated: finally-exit gets edges to all pending
destinations).
"""
from __future__ import annotations

import ast
from dataclasses import dataclass, field
from typing import Callable, Iterator, Optional

import networkx as nx

ENTRY, EXIT, RAISE = 0, 1, 2


@dataclass
class CFG:
    fn: ast.AST
    g: nx.DiGraph = field(default_factory=nx.DiGraph)
    stmt: dict[int, ast.AST] = field(default_factory=dict)
    kind: dict[int, str] = field(default_factory=dict)
    _idom: Optional[dict] = None
    _ipdom: Optional[dict] = None

    # -- queries -----------------------------------------------------------------
    def nodes_of(self, pred: Callable[[ast.AST], bool]) -> list[int]:
        return [n for n, s in self.stmt.items() if pred(s)]

    def node_for(self, s: ast.AST) -> int:
        for n, t in self.stmt.items():
            if t is s:
                return n
        raise KeyError(ast.unparse(s)[:60])

    def dominators(self) -> dict[int, set[int]]:
        if self._idom is None:
            self._idom = nx.immediate_dominators(self.g, ENTRY)
        return _closure(self._idom, ENTRY)

    def dominates(self, a: int, b: int) -> bool:
        """Every path ENTRY->b passes through a."""
        return a in self.dominators().get(b, set())

    def postdominators(self, exit_node: int = EXIT) -> dict[int, set[int]]:
        rg = self.g.reverse(copy=True)
        if exit_node not in rg:
            return {}
        idom = nx.immediate_dominators(rg, exit_node)
        return _closure(idom, exit_node)

    def postdominates(self, a: int, b: int, exit_node: int = EXIT) -> bool:
        """Every path b->EXIT (normal return) passes through a.  Paths that end in RAISE
        are ignored (they do not return normally)."""
        pd = self.postdominators(exit_node)
        if b not in pd:
            return True  # b cannot reach EXIT at all
        return a in pd[b]

    def reachable(self, a: int, b: int, avoiding: frozenset[int] = frozenset()) -> bool:
        if a in avoiding:
            return False
        seen = {a}
        stack = [a]
        while stack:
            x = stack.pop()
            for y in self.g.successors(x):
                if y == b:
                    return True
                if y not in seen and y not in avoiding:
                    seen.add(y)
                    stack.append(y)
        return False

    def every_path_passes(self, src: int, dst: int, through: set[int]) -> bool:
        """True iff every path src -> dst visits a node in `through` (strictly after src)."""
        return not self.reachable(src, dst, avoiding=frozenset(through)) or src in through

    def paths(self, src: int = ENTRY, dst: int = EXIT, max_visits: int = 2, limit: int = 20000
              ) -> Iterator[list[tuple[int, Optional[bool]]]]:
        """Bounded path enumeration: each node at most `max_visits` times per path.
        Yields lists of (node, cond-of-edge-taken-out-of-node)."""
        count = 0
        stack: list[tuple[int, list[tuple[int, Optional[bool]]], dict[int, int]]] = [(src, [], {})]
        while stack:
            n, path, visits = stack.pop()
            if n == dst:
                yield path + [(n, None)]
                count += 1
                if count >= limit:
                    return
                continue
            v = visits.get(n, 0)
            if v >= max_visits:
                continue
            visits2 = dict(visits)
            visits2[n] = v + 1
            for m in self.g.successors(n):
                cond = self.g.edges[n, m].get("cond")
                stack.append((m, path + [(n, cond)], visits2))

    def order(self) -> list[int]:
        return sorted(self.stmt, key=lambda n: (getattr(self.stmt[n], "lineno", 0),
                                                getattr(self.stmt[n], "col_offset", 0)))


def _closure(idom: dict, root: int) -> dict[int, set[int]]:
    out: dict[int, set[int]] = {}
    for n in idom:
        s = {n}
        x = n
        while x != root and x in idom and idom[x] != x:
            x = idom[x]
            s.add(x)
        s.add(root)
        out[n] = s
    return out


class _Builder:
    def __init__(self, fn: ast.AST):
        self.cfg = CFG(fn)
        self.next_id = 3
        for n in (ENTRY, EXIT, RAISE):
            self.cfg.g.add_node(n)
        # stacks
        self.loop: list[tuple[int, list[int]]] = []  # (continue target, break sources)
        self.handlers: list[list[int]] = []  # handler entry nodes of enclosing try bodies
        self.finals: list[dict] = []

    def new(self, s: ast.AST, kind: str = "stmt") -> int:
        n = self.next_id
        self.next_id += 1
        self.cfg.g.add_node(n)
        self.cfg.stmt[n] = s
        self.cfg.kind[n] = kind
        return n

    def edge(self, a: int, b: int, cond: Optional[bool] = None) -> None:
        if self.cfg.g.has_edge(a, b):
            # keep cond=None if both branch outcomes go to the same place
            if self.cfg.g.edges[a, b].get("cond") != cond:
                self.cfg.g.edges[a, b]["cond"] = None
            return
        self.cfg.g.add_edge(a, b, cond=cond)

    # frontier = list of (node, cond) dangling edges to connect to whatever comes next
    def connect(self, frontier: list[tuple[int, Optional[bool]]], target: int) -> None:
        for n, c in frontier:
            self.edge(n, target, c)

    def seq(self, body: list[ast.stmt], frontier):
        for s in body:
            frontier = self.one(s, frontier)
        return frontier

    def exc_targets(self) -> list[int]:
        return self.handlers[-1] if self.handlers else []

    def one(self, s: ast.stmt, frontier):
        if isinstance(s, ast.If):
            n = self.new(s, "if")
            self.connect(frontier, n)
            self._may_raise(n)
            t = self.seq(s.body, [(n, True)])
            f = self.seq(s.orelse, [(n, False)]) if s.orelse else [(n, False)]
            return t + f
        if isinstance(s, ast.While):
            n = self.new(s, "while")
            self.connect(frontier, n)
            self.loop.append((n, []))
            b = self.seq(s.body, [(n, True)])
            self.connect(b, n)
            _, breaks = self.loop.pop()
            const_true = isinstance(s.test, ast.Constant) and bool(s.test.value)
            out = [] if const_true else [(n, False)]
            if s.orelse:
                out = self.seq(s.orelse, out)
            return out + [(bn, None) for bn in breaks]
        if isinstance(s, (ast.For, ast.AsyncFor)):
            n = self.new(s, "for")
            self.connect(frontier, n)
            self._may_raise(n)
            self.loop.append((n, []))
            b = self.seq(s.body, [(n, True)])
            self.connect(b, n)
            _, breaks = self.loop.pop()
            out = [(n, False)]
            if s.orelse:
                out = self.seq(s.orelse, out)
            return out + [(bn, None) for bn in breaks]
        if isinstance(s, (ast.With, ast.AsyncWith)):
            n = self.new(s, "with")
            self.connect(frontier, n)
            self._may_raise(n)
            return self.seq(s.body, [(n, None)])
        if isinstance(s, (ast.Try, getattr(ast, "TryStar", ast.Try))):
            return self.try_(s, frontier)
        if isinstance(s, ast.Match):
            n = self.new(s, "match")
            self.connect(frontier, n)
            out = []
            cur = [(n, None)]
            for case in s.cases:
                cn = self.new(case, "case")
                self.connect(cur, cn)
                out += self.seq(case.body, [(cn, True)])
                irrefutable = case.guard is None and (
                    (isinstance(case.pattern, ast.MatchAs) and case.pattern.pattern is None)
                )
                cur = [] if irrefutable else [(cn, False)]
            return out + cur
        if isinstance(s, ast.Return):
            n = self.new(s, "return")
            self.connect(frontier, n)
            self._may_raise(n)
            self._jump(n, EXIT)
            return []
        if isinstance(s, ast.Raise):
            n = self.new(s, "raise")
            self.connect(frontier, n)
            tg = self.exc_targets()
            if tg:
                for h in tg:
                    self.edge(n, h)
                # a handler may not match: conservatively also escapes
                self._jump(n, RAISE)
            else:
                self._jump(n, RAISE)
            return []
        if isinstance(s, ast.Break):
            n = self.new(s, "break")
            self.connect(frontier, n)
            self.loop[-1][1].append(n)
            return []
        if isinstance(s, ast.Continue):
            n = self.new(s, "continue")
            self.connect(frontier, n)
            self.edge(n, self.loop[-1][0])
            return []
        if isinstance(s, ast.Assert):
            n = self.new(s, "assert")
            self.connect(frontier, n)
            self._may_raise(n)
            return [(n, None)]
        # simple statements, nested defs (opaque)
        n = self.new(s, "stmt")
        self.connect(frontier, n)
        self._may_raise(n)
        return [(n, None)]

    def _may_raise(self, n: int) -> None:
        for h in self.exc_targets():
            self.edge(n, h)

    def _jump(self, n: int, target: int) -> None:
        # jumps out through finally blocks: route via innermost finally entry
        if self.finals:
            fin = self.finals[-1]
            fin["pending"].add(target)
            fin["sources"].append(n)
        else:
            self.edge(n, target)

    def try_(self, s: ast.Try, frontier):
        has_final = bool(s.finalbody)
        if has_final:
            self.finals.append({"pending": set(), "sources": []})
        handler_nodes = []
        for h in s.handlers:
            hn = self.new(h, "except")
            handler_nodes.append(hn)
        # body: statements may raise into the handlers
        self.handlers.append(handler_nodes)
        # entry into try body can already raise (first statement)
        b = self.seq(s.body, frontier)
        self.handlers.pop()
        if s.orelse:
            b = self.seq(s.orelse, b)
        outs = list(b)
        for h, hn in zip(s.handlers, handler_nodes):
            outs += self.seq(h.body, [(hn, None)])
        if has_final:
            fin = self.finals.pop()
            fentry_frontier = outs + [(src, None) for src in fin["sources"]]
            if not fentry_frontier:
                return []
            fout = self.seq(s.finalbody, fentry_frontier)
            for tgt in fin["pending"]:
                for n, c in fout:
                    if self.finals:
                        self.finals[-1]["pending"].add(tgt)
                        self.finals[-1]["sources"].append(n)
                    else:
                        self.edge(n, tgt, c)
            # normal continuation only if some non-jump path entered finally
            return fout if outs else []
        return outs


def build(fn: ast.AST) -> CFG:
    """CFG of a FunctionDef (or any node with a .body list)."""
    b = _Builder(fn)
    body = list(getattr(fn, "body"))
    out = b.seq(body, [(ENTRY, None)])
    b.connect(out, EXIT)
    return b.cfg
