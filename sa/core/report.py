"""Check context: obligations, findings, known findings, evidence, exit codes."""
from __future__ import annotations

import ast
import json
import os
import re
import time
from dataclasses import dataclass, field, asdict
from typing import Any, Optional

from .loader import Repo, Module

VERIF = os.path.dirname(os.path.dirname(os.path.dirname(os.path.abspath(__file__))))
KNOWN_FILE = os.path.join(VERIF, "known_findings.json")
EVIDENCE_DIR = os.path.join(VERIF, "evidence")
REPLAY_DIR = os.path.join(EVIDENCE_DIR, "replay")


def norm_construct(text: str) -> str:
    """Whitespace-insensitive construct text used in finding keys (never a line number)."""
    return re.sub(r"\s+", " ", text).strip()


@dataclass
class Finding:
    property: str
    rule: str
    file: str
    qualname: str
    line: int
    construct: str
    message: str
    facts: dict = field(default_factory=dict)

    def key(self) -> tuple:
        return (self.property, self.rule, self.file, self.qualname, norm_construct(self.construct))

    def short(self) -> str:
        return (f"{self.file}:{self.line} [{self.rule}] {self.qualname}: {self.message} "
                f"-- construct: {norm_construct(self.construct)[:160]}")


@dataclass
class Obligation:
    rule: str
    where: str
    desc: str
    ok: bool
    facts: Any = None


class Ctx:
    def __init__(self, prop: str, repo: Repo, tier: str = "quick"):
        self.prop = prop
        self.repo = repo
        self.tier = tier
        self.obligations: list[Obligation] = []
        self.findings: list[Finding] = []
        self.notes: list[str] = []
        self.samples: list[Any] = []
        self.unresolved: list[str] = []
        self.counts: dict[str, int] = {}
        self._nontrivial: set[str] = set()

    # -- recording -------------------------------------------------------------
    def where(self, mod: Module | str, qualname: str, node: Optional[ast.AST] = None) -> str:
        rel = mod if isinstance(mod, str) else mod.rel
        ln = getattr(node, "lineno", 0) if node is not None else 0
        return f"{rel}:{qualname}:{ln}"

    def check(self, rule: str, ok: bool, mod: Module | str, qualname: str, node: Optional[ast.AST],
              message: str, construct: Optional[str] = None, facts: Optional[dict] = None,
              desc: Optional[str] = None) -> bool:
        """Record one obligation; if not ok, record a finding."""
        rel = mod if isinstance(mod, str) else mod.rel
        cons = construct if construct is not None else (ast.unparse(node) if node is not None else "")
        self.obligations.append(Obligation(rule, self.where(rel, qualname, node), desc or message, bool(ok), facts))
        self.counts[rule] = self.counts.get(rule, 0) + 1
        self._nontrivial.add(f"{rule}|{rel}|{qualname}|{norm_construct(cons)[:200]}|{json.dumps(facts, sort_keys=True, default=str)[:300]}")
        if not ok:
            self.findings.append(Finding(self.prop, rule, rel, qualname,
                                         getattr(node, "lineno", 0) if node is not None else 0,
                                         cons, message, facts or {}))
        return bool(ok)

    def sample(self, s: Any) -> None:
        if len(self.samples) < 40:
            self.samples.append(s)

    def note(self, s: str) -> None:
        self.notes.append(s)

    def unresolved_site(self, s: str) -> None:
        self.unresolved.append(s)


# -- known findings ----------------------------------------------------------------

def load_known() -> list[dict]:
    if not os.path.isfile(KNOWN_FILE):
        return []
    with open(KNOWN_FILE) as fh:
        return json.load(fh).get("findings", [])


def match_known(f: Finding, known: list[dict]) -> Optional[dict]:
    for k in known:
        if k.get("status") != "known":
            continue  # "fixed" entries suppress nothing
        if k["property"] != f.property or k["rule"] != f.rule:
            continue
        if k.get("file") and k["file"] != f.file:
            continue
        if k.get("qualname") and k["qualname"] != f.qualname:
            continue
        if k.get("construct") and norm_construct(k["construct"]) != norm_construct(f.construct):
            continue
        return k
    return None


# -- evidence ------------------------------------------------------------------------

def write_evidence(ctx: Ctx, meta: dict, wall: float, violations: int, known_hits: list[dict],
                   extra: Optional[dict] = None, tier: Optional[str] = None) -> str:
    os.makedirs(EVIDENCE_DIR, exist_ok=True)
    seed = int(os.environ.get("VERIF_SEED", "0") or 0)
    per_rule = {}
    for o in ctx.obligations:
        d = per_rule.setdefault(o.rule, {"obligations": 0, "discharged": 0})
        d["obligations"] += 1
        d["discharged"] += int(o.ok)
    cov = {
        "explanation": meta.get("explanation", ""),
        "rule": meta.get("rule_text", ""),
        "obligations": len(ctx.obligations),
        "discharged": sum(1 for o in ctx.obligations if o.ok),
        "evaluations": len(ctx.obligations),
        "distinct_nontrivial": len(ctx._nontrivial),
        "per_rule": per_rule,
        "samples": ctx.samples[:40] or [asdict(o) for o in ctx.obligations[:5]],
        "obligation_list": [f"{'OK ' if o.ok else 'BAD'} [{o.rule}] {o.where} :: {o.desc}" for o in ctx.obligations][:400],
        "units_analysed": {
            "files": sorted(ctx.repo.consulted),
            "n_files": len(ctx.repo.consulted),
            "source_digest": ctx.repo.digest(),
            "unresolved": ctx.unresolved[:50],
        },
        "trusted_base": meta.get("trusted_base", []),
        "checker_cmd": f"./check {ctx.prop} --tier {tier or ctx.tier}",
        "known_findings_reported": [k.get("what", "") for k in known_hits],
        "notes": ctx.notes[:100],
        "exhaustive": True,
    }
    if extra:
        cov.update(extra)
    ev = {
        "property_id": ctx.prop,
        "tier": tier or ctx.tier,
        "seed": seed,
        "level": "other",
        "coverage": cov,
        "assumptions": meta.get("assumptions", []),
        "wall_s": round(wall, 3),
        "violations": violations,
    }
    path = os.path.join(EVIDENCE_DIR, f"{ctx.prop}.json")
    tmp = path + ".tmp"
    with open(tmp, "w") as fh:
        json.dump(ev, fh, indent=1, default=str)
    os.replace(tmp, path)
    return path


def write_replay(f: Finding) -> str:
    os.makedirs(REPLAY_DIR, exist_ok=True)
    import hashlib

    h = hashlib.sha256(json.dumps(f.key()).encode()).hexdigest()[:12]
    path = os.path.join(REPLAY_DIR, f"{f.property}_{f.rule}_{h}.json")
    with open(path, "w") as fh:
        json.dump(asdict(f), fh, indent=1, default=str)
    return path
