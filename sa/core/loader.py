"""Source loader: parses /repo's *current* working tree (or an in-memory overlay of it).

Nothing here imports or executes porepy.  A `Repo` maps repo-relative paths to parsed
modules; rules ask for anchors by qualified name and get an `AnchorError` (-> exit 2,
"analysis broken") when an anchor has vanished - never a silent pass.
"""
from __future__ import annotations

import ast
import hashlib
import os
import warnings
from dataclasses import dataclass, field
from typing import Iterator, Optional

DEFAULT_ROOT = os.environ.get("SA_REPO_ROOT", "/repo")
PKG = "src/porepy"


class AnchorError(Exception):
    """An anchor (file, class, function, statement shape) the rule needs is missing."""


class Undecided(Exception):
    """The rule cannot decide an instance (unknown idiom).  Exit 2, never a VIOLATION."""


@dataclass
class Module:
    rel: str
    source: str
    tree: ast.Module
    digest: str
    _index: dict = field(default_factory=dict)

    def _build(self) -> None:
        if self._index:
            return
        idx: dict[str, ast.AST] = {}

        def visit(node: ast.AST, prefix: str) -> None:
            for ch in ast.iter_child_nodes(node):
                if isinstance(ch, (ast.FunctionDef, ast.AsyncFunctionDef, ast.ClassDef)):
                    q = f"{prefix}{ch.name}"
                    # first definition wins unless later one is not an @overload stub
                    if q in idx and _is_overload(idx[q]):
                        idx[q] = ch
                    elif q not in idx:
                        idx[q] = ch
                    elif not _is_overload(ch):
                        idx[q] = ch  # last real definition wins (python semantics)
                    visit(ch, q + ".")
                elif isinstance(ch, (ast.If, ast.Try, ast.With)):
                    visit(ch, prefix)

        visit(self.tree, "")
        self._index = idx

    def get(self, qualname: str) -> Optional[ast.AST]:
        self._build()
        return self._index.get(qualname)

    def need(self, qualname: str) -> ast.AST:
        n = self.get(qualname)
        if n is None:
            raise AnchorError(f"{self.rel}:{qualname} not found")
        return n

    def func(self, qualname: str) -> ast.FunctionDef:
        n = self.need(qualname)
        if not isinstance(n, (ast.FunctionDef, ast.AsyncFunctionDef)):
            raise AnchorError(f"{self.rel}:{qualname} is not a function")
        return n  # type: ignore[return-value]

    def cls(self, qualname: str) -> ast.ClassDef:
        n = self.need(qualname)
        if not isinstance(n, ast.ClassDef):
            raise AnchorError(f"{self.rel}:{qualname} is not a class")
        return n

    def qualnames(self) -> dict[str, ast.AST]:
        self._build()
        return dict(self._index)

    def functions(self) -> Iterator[tuple[str, ast.FunctionDef]]:
        self._build()
        for q, n in self._index.items():
            if isinstance(n, (ast.FunctionDef, ast.AsyncFunctionDef)):
                yield q, n  # type: ignore[misc]

    def classes(self) -> Iterator[tuple[str, ast.ClassDef]]:
        self._build()
        for q, n in self._index.items():
            if isinstance(n, ast.ClassDef):
                yield q, n

    def segment(self, node: ast.AST) -> str:
        return ast.get_source_segment(self.source, node) or ast.unparse(node)


def _is_overload(node: ast.AST) -> bool:
    for d in getattr(node, "decorator_list", []):
        s = ast.unparse(d)
        if s.endswith("overload"):
            return True
    return False


class Repo:
    """View of the repository source tree.  `overlay` maps rel path -> replacement text
    (used by the self-test battery: mutants are never written into /repo)."""

    def __init__(self, root: str = DEFAULT_ROOT, overlay: Optional[dict[str, str]] = None):
        self.root = os.path.abspath(root)
        self.overlay = dict(overlay or {})
        self._mods: dict[str, Module] = {}
        self.consulted: set[str] = set()

    def exists(self, rel: str) -> bool:
        return rel in self.overlay or os.path.isfile(os.path.join(self.root, rel))

    def read(self, rel: str) -> str:
        if rel in self.overlay:
            return self.overlay[rel]
        p = os.path.join(self.root, rel)
        if not os.path.isfile(p):
            raise AnchorError(f"file {rel} not found under {self.root}")
        with open(p, encoding="utf-8") as fh:
            return fh.read()

    def module(self, rel: str) -> Module:
        m = self._mods.get(rel)
        if m is None:
            src = self.read(rel)
            try:
                with warnings.catch_warnings():
                    warnings.simplefilter("ignore")
                    tree = ast.parse(src, filename=rel)
            except SyntaxError as e:  # the tree does not compile: analysis impossible
                raise AnchorError(f"{rel} does not parse: {e}")
            m = Module(rel, src, tree, hashlib.sha256(src.encode()).hexdigest())
            self._mods[rel] = m
        self.consulted.add(rel)
        return m

    def all_py(self, sub: str = PKG) -> list[str]:
        out = []
        base = os.path.join(self.root, sub)
        for dp, dn, fn in os.walk(base):
            dn[:] = sorted(d for d in dn if d != "__pycache__")
            for f in sorted(fn):
                if f.endswith(".py"):
                    out.append(os.path.relpath(os.path.join(dp, f), self.root))
        for rel in self.overlay:
            if rel.startswith(sub) and rel not in out:
                out.append(rel)
        return sorted(out)

    def modules(self, sub: str = PKG) -> Iterator[Module]:
        for rel in self.all_py(sub):
            yield self.module(rel)

    def with_overlay(self, overlay: dict[str, str]) -> "Repo":
        ov = dict(self.overlay)
        ov.update(overlay)
        r = Repo(self.root, ov)
        # share already parsed, un-overlaid modules (mutants touch one or two files)
        for rel, m in self._mods.items():
            if rel not in overlay:
                r._mods[rel] = m
        return r

    def digest(self) -> str:
        h = hashlib.sha256()
        for rel in sorted(self.consulted):
            h.update(rel.encode())
            h.update(self._mods[rel].digest.encode())
        return h.hexdigest()[:16]
