"""setup_cmd: nothing to build or install - verify the interpreter, the needed stdlib/third-party
modules of the repository's own environment, and that every rule module imports."""
import importlib
import os
import sys

def main() -> int:
    import ast, json  # noqa
    import networkx  # noqa
    ok = True
    here = os.path.dirname(os.path.abspath(__file__))
    for f in sorted(os.listdir(os.path.join(here, "rules"))):
        if f.startswith("c") and f.endswith(".py"):
            try:
                m = importlib.import_module(f"sa.rules.{f[:-3]}")
                assert hasattr(m, "run")
            except Exception as e:  # pragma: no cover
                print(f"selfcheck: sa.rules.{f[:-3]} failed to import: {e}")
                ok = False
    if not os.path.isdir(os.environ.get("SA_REPO_ROOT", "/repo") + "/src/porepy"):
        print("selfcheck: /repo/src/porepy not found")
        ok = False
    os.makedirs(os.path.join(os.path.dirname(here), "evidence"), exist_ok=True)
    print("selfcheck:", "ok" if ok else "FAILED", "python", sys.version.split()[0], "networkx", networkx.__version__)
    return 0 if ok else 1

if __name__ == "__main__":
    sys.exit(main())
