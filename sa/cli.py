"""Command line driver:  python -m sa.cli C07 --tier quick|thorough [--root DIR] [--replay FILE]

Exit codes: 0 property's structural clauses hold on everything analysed (KNOWN-FINDING lines
allowed); 1 at least one unlisted violation (VIOLATION line printed); 2 the analysis itself is
broken/undecided (ANALYSIS-ERROR line) - never reported as a violation.
"""
from __future__ import annotations

import argparse
import importlib
import json
import os
import sys
import time
import traceback

from .core.loader import Repo, AnchorError, Undecided, DEFAULT_ROOT
from .core import report
from .core.report import Ctx

CLAIMED = sorted(f[:-3].upper() for f in os.listdir(os.path.join(os.path.dirname(os.path.abspath(__file__)), "rules"))
                 if f.startswith("c") and f.endswith(".py") and f[1:-3].isdigit())


def load_rule(prop: str):
    return importlib.import_module(f"sa.rules.{prop.lower()}")


def run_rules(mod, prop: str, repo: Repo, tier: str) -> Ctx:
    ctx = Ctx(prop, repo, tier)
    mod.run(ctx)
    return ctx


def apply_mutant(repo: Repo, m: dict) -> Repo | None:
    """Overlay repo with the mutant applied, or None if the mutant's anchor text is absent
    (stale: the source has moved on; reported, not an error)."""
    overlay = {}
    edits = m.get("edits") or [dict(file=m["file"], old=m["old"], new=m["new"], count=m.get("count", 1))]
    for e in edits:
        src = overlay.get(e["file"])
        if src is None:
            try:
                src = repo.read(e["file"])
            except AnchorError:
                return None
        if src.count(e["old"]) != e.get("count", 1):
            return None
        src2 = src.replace(e["old"], e["new"])
        try:
            compile(src2, e["file"], "exec")  # the mutant must still compile
        except SyntaxError:
            return None
        overlay[e["file"]] = src2
    return repo.with_overlay(overlay)


def _apply_unified_diff(repo: Repo, patch_text: str) -> dict | None:
    """Apply a unified diff to the in-memory source of `repo`; returns {rel: new_text} or None if a hunk does not
    apply (the anchor moved on, e.g. because a later fix touched the same lines)."""
    import re
    overlay: dict[str, str] = {}
    files = re.split(r"^diff --git .*$", patch_text, flags=re.M)
    for chunk in files:
        m = re.search(r"^\+\+\+ b/(.+)$", chunk, flags=re.M)
        if not m:
            continue
        rel = m.group(1).strip()
        try:
            lines = overlay.get(rel, repo.read(rel)).split("\n")
        except AnchorError:
            return None
        hunks = re.split(r"^@@ .*@@.*$", chunk, flags=re.M)[1:]
        heads = re.findall(r"^@@ -(\d+)(?:,\d+)? \+(\d+)(?:,\d+)? @@", chunk, flags=re.M)
        offset = 0
        for (old_start, _new_start), body in zip(heads, hunks):
            hl = body.split("\n")[1:]
            if hl and hl[-1] == "":
                hl = hl[:-1]
            old_blk = [l[1:] for l in hl if l[:1] in (" ", "-")]
            new_blk = [l[1:] for l in hl if l[:1] in (" ", "+")]
            start = int(old_start) - 1 + offset
            pos = None
            for d in sorted(range(-400, 401), key=abs):
                if 0 <= start + d and lines[start + d:start + d + len(old_blk)] == old_blk:
                    pos = start + d
                    break
            if pos is None:
                return None
            lines[pos:pos + len(old_blk)] = new_blk
            offset += len(new_blk) - len(old_blk) + (pos - start)
        overlay[rel] = "\n".join(lines)
    return overlay or None


def seeded_regression(mod, prop: str, repo: Repo, base_keys: set) -> dict:
    """thorough tier: every independently seeded, confirmed change kept under /verif/seeded/<PROP>-<k>/ is applied to an
    in-memory overlay of the current tree; the check must report a new finding on it."""
    res = {"applied": 0, "detected": 0, "stale": [], "missed": []}
    sd = os.path.join(report.VERIF, "seeded")
    if not os.path.isdir(sd):
        return res
    for d in sorted(os.listdir(sd)):
        if not d.startswith(prop + "-"):
            continue
        pf = os.path.join(sd, d, "patch.diff")
        if not os.path.isfile(pf):
            continue
        ov = _apply_unified_diff(repo, open(pf).read())
        if ov is None:
            res["stale"].append(d)
            continue
        try:
            for rel, txt in ov.items():
                compile(txt, rel, "exec")
        except SyntaxError:
            res["stale"].append(d)
            continue
        res["applied"] += 1
        try:
            mctx = run_rules(mod, prop, repo.with_overlay(ov), "quick")
            hit = [f for f in mctx.findings if f.key() not in base_keys]
        except (AnchorError, Undecided):
            hit = []
        if hit:
            res["detected"] += 1
        else:
            res["missed"].append(d)
    return res


def selftest(mod, prop: str, repo: Repo, base_keys: set, only_controls: bool) -> dict:
    res = {"applied": 0, "detected": 0, "stale": [], "missed": [], "detected_names": [], "errors": []}
    for m in getattr(mod, "MUTANTS", []):
        if only_controls and not m.get("control"):
            continue
        mrepo = apply_mutant(repo, m)
        if mrepo is None:
            res["stale"].append(m["name"])
            continue
        res["applied"] += 1
        try:
            mctx = run_rules(mod, prop, mrepo, "quick")
            new = [f for f in mctx.findings if f.key() not in base_keys]
            hit = [f for f in new if f.rule == m["rule"] or m["rule"] == "*"]
        except (AnchorError, Undecided) as e:
            # a mutant that makes the analysis refuse (exit 2) is "noticed", acceptable only
            # if the mutant says so
            if m.get("accept_undecided"):
                hit = [True]
            else:
                hit = []
                res["errors"].append(f"{m['name']}: {type(e).__name__}: {e}")
        if hit:
            res["detected"] += 1
            res["detected_names"].append(m["name"])
        else:
            res["missed"].append(m["name"])
    return res


def main(argv=None) -> int:
    ap = argparse.ArgumentParser()
    ap.add_argument("prop")
    ap.add_argument("--tier", default=os.environ.get("VERIF_TIER", "quick"), choices=["quick", "thorough"])
    ap.add_argument("--root", default=DEFAULT_ROOT)
    ap.add_argument("--replay", default=None)
    ap.add_argument("--no-selftest", action="store_true")
    ap.add_argument("--no-evidence", action="store_true")
    ap.add_argument("-v", "--verbose", action="store_true")
    a = ap.parse_args(argv)
    prop = a.prop.upper()
    t0 = time.time()
    try:
        mod = load_rule(prop)
    except ModuleNotFoundError:
        print(f"ANALYSIS-ERROR property={prop} no rule module")
        return 2
    repo = Repo(a.root)
    meta = getattr(mod, "META", {})
    errors: list[str] = []
    ctx = Ctx(prop, repo, a.tier)
    try:
        mod.run(ctx)
    except (AnchorError, Undecided) as e:
        errors.append(f"{type(e).__name__}: {e}")
    except Exception as e:  # a crash of the checker is never a violation
        errors.append(f"checker crashed: {type(e).__name__}: {e}")
        if a.verbose:
            traceback.print_exc()
        else:
            errors.append(traceback.format_exc().splitlines()[-3].strip())

    # vacuity guard
    for rule, n in getattr(mod, "MIN_INSTANCES", {}).items():
        if ctx.counts.get(rule, 0) < n and not errors:
            errors.append(f"vacuity: rule {rule} examined {ctx.counts.get(rule, 0)} instances, "
                          f"expected at least {n} (confirmed by hand on the pinned tree)")

    known = report.load_known()
    known_hits, violations = [], []
    seen_keys = set()
    for f in ctx.findings:
        if f.key() in seen_keys:
            continue
        seen_keys.add(f.key())
        k = report.match_known(f, known)
        if k is not None:
            known_hits.append(k)
            print(f"KNOWN-FINDING: property={prop} {k.get('what', f.message)} [{f.short()}]")
        else:
            violations.append(f)

    # replay mode: re-evaluate and report on the recorded instance only
    if a.replay:
        with open(a.replay) as fh:
            rec = json.load(fh)
        key = (rec["property"], rec["rule"], rec["file"], rec["qualname"], report.norm_construct(rec["construct"]))
        cur = [f for f in ctx.findings if f.key() == key]
        if cur:
            print(f"REPLAY: still violated: {cur[0].short()}")
            print(json.dumps(cur[0].facts, indent=1, default=str))
            print(f"VIOLATION property={prop} replay={a.replay}")
            return 1
        print(f"REPLAY: instance no longer reported ({rec['rule']} {rec['file']}:{rec['qualname']})")
        return 0 if not errors else 2

    # self-test: positive controls (quick) / whole mutant battery + sweeps (thorough)
    st = None
    if not a.no_selftest and not errors:
        st = selftest(mod, prop, repo, seen_keys, only_controls=(a.tier == "quick"))
        if st["missed"]:
            errors.append("self-test: seeded mutant(s) not detected: " + ", ".join(st["missed"])
                          + ("; " + "; ".join(st["errors"]) if st["errors"] else ""))
    sr = None
    if not a.no_selftest and not errors and a.tier == "thorough":
        sr = seeded_regression(mod, prop, repo, seen_keys)
        if sr["missed"]:
            errors.append("seeded regression: confirmed seeded change(s) no longer detected: " + ", ".join(sr["missed"]))
    extra = {}
    if sr is not None:
        extra["seeded_regression"] = dict(sr, what="independently seeded, coordinator-confirmed changes under /verif/seeded applied as "
                                          "in-memory overlays of the current tree; each must produce a new finding")
    if st is not None:
        extra["selftest"] = {k: st[k] for k in ("applied", "detected", "stale", "missed", "detected_names")}
        extra["selftest"]["what"] = ("each seeded mutant is a single source edit applied to an in-memory overlay "
                                     "of the current tree (never written to /repo); the named rule must report it")
    if errors:
        extra["analysis_errors"] = errors
    wall = time.time() - t0
    if not a.no_evidence:
        report.write_evidence(ctx, meta, wall, len(violations), known_hits, extra, tier=a.tier)

    print(f"[{prop}] tier={a.tier} files={len(repo.consulted)} obligations={len(ctx.obligations)} "
          f"discharged={sum(1 for o in ctx.obligations if o.ok)} known={len(known_hits)} "
          f"violations={len(violations)} "
          + (f"selftest={st['detected']}/{st['applied']} (stale {len(st['stale'])}) " if st else "")
          + (f"seeded={sr['detected']}/{sr['applied']} (stale {len(sr['stale'])}) " if sr else "")
          + f"wall={wall:.2f}s")
    if a.verbose:
        for o in ctx.obligations:
            print(("  ok  " if o.ok else "  BAD ") + f"[{o.rule}] {o.where} :: {o.desc}")
        for n in ctx.notes:
            print("  note:", n)
    rc = 0
    for f in violations:
        path = report.write_replay(f)
        print(f"  {f.short()}")
        print(f"VIOLATION property={prop} replay={path}")
        rc = 1
    if rc == 0 and errors:
        for e in errors:
            print(f"ANALYSIS-ERROR property={prop} {e}")
        rc = 2
    elif errors:
        for e in errors:
            print(f"  (also) analysis error: {e}")
    return rc


if __name__ == "__main__":
    try:
        sys.exit(main())
    except SystemExit:
        raise
    except BaseException as e:  # tracebacks must not look like violations
        print(f"ANALYSIS-ERROR checker crashed: {type(e).__name__}: {e}")
        traceback.print_exc()
        sys.exit(2)
